#!/bin/sh
# MANIFEST.setup_cmd: build the overlay venv (offline) used by every check.
set -e
cd "$(dirname "$0")"
V=.venv
if [ ! -x "$V/bin/python" ] || ! "$V/bin/python" -c "import z3, cvc5, jsonschema, pandas, numba, opendsm" 2>/dev/null; then
  rm -rf "$V"
  /venv/bin/python -m venv "$V"
  SP=$("$V/bin/python" -c "import sysconfig; print(sysconfig.get_paths()['purelib'])")
  printf '%s\n%s\n' "/venv/lib/python3.12/site-packages" "/repo" > "$SP/_overlay.pth"
  PIP_NO_INDEX=1 "$V/bin/pip" install -q --no-index --find-links /opt/veriftools/wheels z3-solver cvc5 jsonschema crosshair-tool >/dev/null 2>&1 || \
  PIP_NO_INDEX=1 "$V/bin/pip" install -q --no-index --find-links /opt/veriftools/wheels z3-solver cvc5 jsonschema
fi
"$V/bin/python" -c "import z3, cvc5, jsonschema, pandas, numba, opendsm; print('verif venv ok: z3', z3.get_version_string())"
