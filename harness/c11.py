"""C11 - the daily model curve is continuous, monotone and its load components add up.

Executed symbolically: DailyModel._predict_submodel -> ModelCoefficients.to_np_array/model_key,
get_full_model_x, fix_full_model_x, get_smooth_coeffs, full_model (numba kernels de-jitted).
Quantified by the solver: all admissible coefficients of each of the 7 stored shapes, all
temperature limits, all temperatures T (one or two evaluation points), unbounded reals."""
from __future__ import annotations

import z3

from symv import engine as E
from symv.case import Case
from symv.claims import violated
from symv.proxies import lift, model_env, zval

from . import dailyref as R
from .dailyref import FIELDS, SHAPES, Z, zabs, zmax

EXPLANATION = ("C11: 7 shapes x {1,2} evaluation points; obligations: flat segment, closed-form line/curve beyond the "
               "balance points, monotonicity, Lipschitz continuity with the fitted slopes (implies continuity), "
               "load sign/exclusivity/additivity.")
BOUNDS = {"quick": dict(evaluation_points="1 and 2 symbolic temperatures per sub-model", reals="unbounded"),
          "thorough": dict(evaluation_points="1 and 2 symbolic temperatures per sub-model; the full smoothed pair run additionally without the get_smooth_coeffs contract", reals="unbounded")}
CASE_TIMEOUT = {"thorough": 5400}
STUBS = ["ModelCoefficients/DailySubmodelParameters built with model_construct (pydantic-core validation bypassed)"]
MODELS_USED = ["symnp.clip (ITE)", "EXP uninterpreted + instantiated axioms (positivity, monotone, convexity/MVT, e^a>=1+a)"]
ASSUMPTIONS = ["floats modelled as reals; witnesses replayed in float64 on the jitted kernels",
               "admissible domain = dailyref.domain (what reduce_model can store; inclusion proved by C12)",
               "exp is uninterpreted with sound axioms; 'asymptotically' is claimed as: gap to the line is beta*k*exp(-d/k), positive and shrinking"]
EXPECTED_REGIMES = ["smoothing fractions normalised (sum > 1)", "heating side", "cooling side", "flat segment", "smoothing active", "exactly at balance point",
                    "clip at LN_MIN active"]


def ENCODED():
    import opendsm.eemeter.models.daily.model as dm
    from opendsm.eemeter.models.daily.base_models import full_model as fm
    from opendsm.eemeter.models.daily.parameters import ModelCoefficients
    from opendsm.eemeter.models.daily.utilities import base_model as bm
    return [dm.DailyModel._predict_submodel, fm.full_model, fm.get_full_model_x, fm.fix_full_model_x,
            bm.get_smooth_coeffs, ModelCoefficients.to_np_array, ModelCoefficients.model_key]


def cases(tier, seed):
    out = ["hdd_tidd_cdd_smooth/lemma", "hdd_tidd_cdd_smooth/rounding"]
    for s in SHAPES:
        out.append(f"{s}/single")
        out.append(f"{s}/pair")
    # documents listing the balance points in reversed order (the kernel/fix_full_model_x reorder them)
    out += ["hdd_tidd_cdd/singlerev", "hdd_tidd_cdd_smooth/singlerev"]
    out += [f"legacy20/{k}" for k in L20_KINDS]  # models read from legacy (2.0) documents
    if tier == "thorough":
        out.append("hdd_tidd_cdd_smooth/pairexact")  # the real get_smooth_coeffs inside the pair run (no contract)
    return out


# ------------------------------------------------------------------ claims

def claims_single(shape, V, O, K=None):
    """claims about one evaluation point; O: name -> z3 term (index 0)."""
    T = V["T0"]
    P = R.effective(shape, V, K)
    c = V["intercept"]
    pred, hl, cl, unc = O["predicted"][0], O["heating_load"][0], O["cooling_load"][0], O["predicted_unc"][0]
    cl_ = {}
    cl_["flat between balance points"] = z3.Implies(z3.And(T >= P["bp_h"], T <= P["bp_c"]), pred == c) if not P["flat"] else pred == c
    cl_["closed form (line / smoothed curve)"] = pred == R.reference(shape, V, T, K)
    cl_["heating_load >= 0"] = hl >= 0
    cl_["cooling_load >= 0"] = cl >= 0
    cl_["at most one load non-zero"] = z3.Or(hl == 0, cl == 0)
    cl_["base + heating + cooling == predicted"] = c + hl + cl == pred
    cl_["heating load only below / cooling load only above the flat segment"] = z3.And(
        z3.Implies(hl != 0, T < P["bp_h"]) if not P["flat"] else hl == 0,
        z3.Implies(cl != 0, T > P["bp_c"]) if not P["flat"] else cl == 0)
    cl_["predicted_unc == f_unc"] = unc == V["f_unc"]
    if not P["flat"]:
        # smoothed: the curve lies above its asymptotic line by a positive, bounded gap
        lineh = c + P["beta_h"] * (P["nom_h"] - T)
        linec = c + P["beta_c"] * (T - P["nom_c"])
        cl_["curve between line and line + beta*k"] = z3.And(
            z3.Implies(T < P["bp_h"], z3.And(pred >= lineh, pred <= lineh + P["beta_h"] * P["k_h"])),
            z3.Implies(T > P["bp_c"], z3.And(pred >= linec, pred <= linec + P["beta_c"] * P["k_c"])))
    return cl_


def claims_pair(shape, V, O, K=None):
    T0, T1 = V["T0"], V["T1"]
    P = R.effective(shape, V, K)
    p0, p1 = O["predicted"][0], O["predicted"][1]
    out = {}
    if P["flat"]:
        out["monotone"] = p0 == p1
        out["lipschitz continuity"] = p0 == p1
        return out
    out["monotone: colder never lowers usage at or below the cooling balance point"] = z3.Implies(z3.And(T0 < T1, T1 <= P["bp_c"]), p0 >= p1)
    out["monotone: hotter never lowers usage at or above the heating balance point"] = z3.Implies(z3.And(T0 < T1, T0 >= P["bp_h"]), p0 <= p1)
    L = zmax(P["beta_h"], P["beta_c"])
    out["lipschitz continuity"] = zabs(p0 - p1) <= L * zabs(T0 - T1)
    # the gap between the smoothed curve and its asymptote shrinks away from the balance point
    lineh0 = V["intercept"] + P["beta_h"] * (P["nom_h"] - T0)
    lineh1 = V["intercept"] + P["beta_h"] * (P["nom_h"] - T1)
    linec0 = V["intercept"] + P["beta_c"] * (T0 - P["nom_c"])
    linec1 = V["intercept"] + P["beta_c"] * (T1 - P["nom_c"])
    out["gap to the asymptote shrinks away from the balance point"] = z3.And(
        z3.Implies(z3.And(T0 < T1, T1 < P["bp_h"]), p0 - lineh0 <= p1 - lineh1),
        z3.Implies(z3.And(T0 < T1, T0 > P["bp_c"]), p0 - linec0 >= p1 - linec1))
    return out


def _claims(shape, mode, V, O, K=None):
    return claims_single(shape, V, O, K) if mode == "single" else claims_pair(shape, V, O, K)


def claims_lemma(V, out):
    """get_smooth_coeffs: the returned values equal the independent restatement and satisfy the contract
    used by the assume-guarantee cases."""
    P = R.effective("hdd_tidd_cdd_smooth", dict(V, hdd_beta=z3.RealVal(1), cdd_beta=z3.RealVal(1)))
    a, kh, b, kc = out
    return {
        "smooth coeffs == documented percent-k formula": z3.And(a == P["bp_h"], kh == P["k_h"], b == P["bp_c"], kc == P["k_c"]),
        "smooth coeffs satisfy the contract": z3.And(a == V["hdd_bp"] + kh, b == V["cdd_bp"] - kc,
                                                     R.smooth_contract(V["hdd_bp"], V["hdd_k"], V["cdd_bp"], V["cdd_k"], kh, kc)),
    }


# ------------------------------------------------------------------ replay

def _out_vars(nT):
    return {k: [Z(f"out_{k}_{i}") for i in range(nT)] for k in ("predicted", "predicted_unc", "heating_load", "cooling_load")}


def replay_submodel(inp):
    """inputs: {shape, mode, label, vals{...}}: run the real code and re-evaluate the claim in float64."""
    shape, mode, label = inp["shape"], inp["mode"], inp["label"]
    nT = 1 if mode == "single" else 2
    vals = {k: float(v) for k, v in inp["vals"].items()}
    Ts = [vals[f"T{i}"] for i in range(nT)]
    out = R.real_predict_submodel(shape, R.swapped(vals) if inp.get("reverse") else vals, Ts)
    V = R.input_vars(shape, nT)
    O = _out_vars(nT)
    env = dict(vals)
    for k, lst in out.items():
        for i, v in enumerate(lst):
            env[f"out_{k}_{i}"] = v
    claim = _claims(shape, mode, V, O)[label]
    bad = violated(claim, env, rel=1e-9, abs_=1e-9)
    return bad, f"real outputs {out} at {vals}"


REPLAY = {"submodel": replay_submodel}


# ------------------------------------------------------------------ run

def replay_lemma(inp):
    vals = {k: float(v) for k, v in inp["vals"].items()}
    out = R.real_smooth_coeffs(vals)
    V = {k: Z(k) for k in ("hdd_bp", "hdd_k", "cdd_bp", "cdd_k")}
    O = [Z(f"out_{i}") for i in range(4)]
    env = dict(vals)
    env.update({f"out_{i}": v for i, v in enumerate(out)})
    bad = violated(claims_lemma(V, O)[inp["label"]], env, rel=1e-9, abs_=1e-9)
    return bad, f"get_smooth_coeffs -> {out} at {vals}"


REPLAY["smooth_coeffs"] = replay_lemma


def run_lemma(case: Case):
    V = {k: Z(k) for k in ("hdd_bp", "hdd_k", "cdd_bp", "cdd_k")}
    case.inputs = list(V.values())
    paths = case.explore(R.sym_smooth_coeffs)
    for p in paths:
        if p.outcome != "ret":
            case.prove(p, False, "no exception", replay=("smooth_coeffs", lambda m: dict(label="smooth coeffs satisfy the contract", vals=model_env(m, case.inputs))))
            continue
        case.twin(p)
        out = [z3.ToReal(lift(x)) if z3.is_int(lift(x)) else lift(x) for x in p.value]
        for label, claim in claims_lemma(V, out).items():
            case.prove(p, claim, label, replay=("smooth_coeffs", (lambda lab: lambda m: dict(label=lab, vals=model_env(m, case.inputs)))(label)))
        case.validate(p, p.value, lambda mdl: model_env(mdl, case.inputs), R.real_smooth_coeffs)
    case.regime("smoothing fractions normalised (sum > 1)", case.reach("n", [V["hdd_k"] + V["cdd_k"] > 1, V["hdd_k"] >= 0, V["cdd_k"] >= 0]) is not None)


def _float_order_search(vals, tries=4000):
    """concrete float64 search around a witness of the rounding-error model: returns inputs for which the real
    get_smooth_coeffs returns shifted balance points in the wrong order (cdd_bp' < hdd_bp')"""
    import random
    from opendsm.eemeter.models.daily.utilities.base_model import get_smooth_coeffs
    rnd = random.Random(12345)
    a, ph, b, pc_ = (float(vals[k]) for k in ("hdd_bp", "hdd_k", "cdd_bp", "cdd_k"))
    cands = [(a, ph, b, pc_)]
    for _ in range(tries):
        A = round(a + rnd.uniform(-5, 5), 3)
        B = round(max(A + 0.001, b + rnd.uniform(-5, 5)), 3)
        PH = round(abs(ph + rnd.uniform(-0.3, 0.3)), 3)
        PC = round(abs(pc_ + rnd.uniform(-0.3, 0.3)), 3)
        cands.append((A, PH, B, PC))
    # the order can only flip where the two shifts nearly meet: smoothing fractions whose float sum is within a few ulp of 1
    # (both sides of 1), on a grid of balance points around the witness and over the usual range
    import math
    grid = [(round(a + i * 0.5, 3), round(max(a, b) + j * 0.5, 3)) for i in range(-3, 4) for j in range(0, 8)] + \
           [(30.0 + i * 0.5, 48.0 + j * 0.5) for i in range(0, 5) for j in range(0, 45)]
    for PH in (0.9, 0.7, 0.6, 0.3, 0.1, 1.0, 0.0):
        pc0 = 1.0 - PH
        near = [pc0]
        for _ in range(8):
            near.append(math.nextafter(near[-1], 0.0))
        up = pc0
        for _ in range(2):
            up = math.nextafter(up, 2.0)
            near.append(up)
        for PC in near:
            for (A, B) in grid:
                cands.append((A, PH, B, PC))
    for (A, PH, B, PC) in cands:
        if A > B or PH < 0 or PC < 0:
            continue
        o = get_smooth_coeffs(A, PH, B, PC)
        if o[2] < o[0]:
            return dict(hdd_bp=A, hdd_k=PH, cdd_bp=B, cdd_k=PC, out=[float(x) for x in o])
    return None


def replay_rounding(inp):
    vals = {k: float(v) for k, v in inp["vals"].items() if k in ("hdd_bp", "hdd_k", "cdd_bp", "cdd_k")}
    hit = _float_order_search(vals)
    if hit is None:
        return False, "no float64 instance found near the witness"
    # consequence through the public API: the heating and cooling sides are swapped by full_model
    V = dict(intercept=10.0, hdd_bp=hit["hdd_bp"], hdd_beta=2.0, hdd_k=hit["hdd_k"], cdd_bp=hit["cdd_bp"], cdd_beta=0.5, cdd_k=hit["cdd_k"],
             T_min=hit["hdd_bp"] - 40, T_max=hit["cdd_bp"] + 40, T_min_seg=hit["hdd_bp"] - 35, T_max_seg=hit["cdd_bp"] + 35, f_unc=1.0)
    T = hit["hdd_bp"] - 10
    out = R.real_predict_submodel("hdd_tidd_cdd_smooth", V, [T])
    return True, (f"get_smooth_coeffs({hit['hdd_bp']}, {hit['hdd_k']}, {hit['cdd_bp']}, {hit['cdd_k']}) = {hit['out']}: shifted cooling balance point below the heating one "
                  f"(float rounding), full_model swaps the sides: predicted({T}) = {out['predicted'][0]} with heating slope 2.0 replaced by the cooling slope 0.5")


REPLAY["rounding"] = replay_rounding


def run_rounding(case: Case):
    """get_smooth_coeffs under the standard rounding-error model of float64 (every arithmetic result times (1+e), |e| <= 2^-53):
    the shifted balance points must keep their order, otherwise full_model swaps heating and cooling sides."""
    from symv.proxies import rounding_model
    V = {k: Z(k) for k in ("hdd_bp", "hdd_k", "cdd_bp", "cdd_k")}
    case.inputs = list(V.values())

    def run():
        eng = E.cur()
        for c in [V["hdd_bp"] <= V["cdd_bp"], V["hdd_k"] >= 0, V["cdd_k"] >= 0, V["hdd_bp"] >= -100, V["cdd_bp"] <= 200, V["hdd_k"] <= 2, V["cdd_k"] <= 2]:
            eng.assume(c)
        with rounding_model():
            from symv.proxies import SReal as _S
            r = R._get_smooth_coeffs(_S(V["hdd_bp"]), _S(V["hdd_k"]), _S(V["cdd_bp"]), _S(V["cdd_k"]))
        return list(r)

    paths = case.explore(run)
    for p in paths:
        rp = ("rounding", lambda m: dict(vals=model_env(m, case.inputs)))
        if p.outcome != "ret":
            case.prove(p, False, "get_smooth_coeffs does not raise", replay=rp)
            continue
        out = [z3.ToReal(lift(x)) if z3.is_int(lift(x)) else lift(x) for x in p.value]
        case.prove(p, out[0] <= out[2], "shifted balance points keep their order under float64 rounding (rounding-error model)", replay=rp)
    case.note("rounding-error model: fl(a op b) = (a op b)(1+e), |e| <= 2^-53, one fresh e per arithmetic result")


# ------------------------------------------------------------------ legacy (2.0) documents

L20_KINDS = {"intercept_only": (), "hdd_only": ("h",), "cdd_only": ("c",), "cdd_hdd": ("h", "c")}


def _l20_doc(kind, v):
    mp = {"intercept": v["intercept"]}
    if "h" in L20_KINDS[kind]:
        mp.update(beta_hdd=v["beta_hdd"], heating_balance_point=v["bp_h"])
    if "c" in L20_KINDS[kind]:
        mp.update(beta_cdd=v["beta_cdd"], cooling_balance_point=v["bp_c"])
    return {"model_type": kind, "model_params": mp}


def _l20_formula(kind, v, T, mx):
    out = v["intercept"]
    if "h" in L20_KINDS[kind]:
        out = out + v["beta_hdd"] * mx(v["bp_h"] - T, 0)
    if "c" in L20_KINDS[kind]:
        out = out + v["beta_cdd"] * mx(T - v["bp_c"], 0)
    return out


def replay_legacy20(inp):
    import numpy as np
    import opendsm.eemeter.models.daily.model as dm
    v = {k: float(x) for k, x in inp["vals"].items()}
    for k in ("intercept", "beta_hdd", "beta_cdd", "bp_h", "bp_c", "T0"):
        v.setdefault(k, 0.0)
    m = dm.DailyModel.from_2_0_dict(_l20_doc(inp["kind"], v))
    sub = m.params.submodels["fw-su_sh_wi"]
    got = float(m._predict_submodel(sub, np.array([v["T0"]], dtype=float))[0][0])
    want = _l20_formula(inp["kind"], v, v["T0"], max)
    return abs(got - want) > 1e-9 * max(1.0, abs(want)), f"model read from the 2.0 document {_l20_doc(inp['kind'], v)} predicts {got} at T={v['T0']}; the CalTRACK 2.0 formula gives {want}"


REPLAY["legacy20"] = replay_legacy20


def run_legacy20(case: Case, kind):
    """a model read from a legacy (2.0) document is the 2.0 curve: intercept + beta_hdd*max(bp_h - T, 0) + beta_cdd*max(T - bp_c, 0)
    for every temperature (the conversion's placeholder limits must not bend it)"""
    import opendsm.eemeter.models.daily.model as dm
    import opendsm.eemeter.models.daily.parameters as pm
    from symv.carriers import patched, symarr
    from symv.proxies import SReal
    V = {k: Z(k) for k in ("intercept", "beta_hdd", "beta_cdd", "bp_h", "bp_c", "T0")}
    case.inputs = list(V.values())
    RealC, RealS = pm.ModelCoefficients, pm.DailySubmodelParameters

    class TwinC:  # permissive constructors standing in for the validated pydantic models
        def __new__(cls, **kw):
            return RealC.model_construct(**kw)

    class TwinS:
        def __new__(cls, **kw):
            return RealS.model_construct(**kw)

    def run():
        eng = E.cur()
        for c in [V["beta_hdd"] > 0, V["beta_cdd"] > 0, V["bp_h"] > -100, V["bp_c"] < 200, V["bp_h"] <= V["bp_c"]]:
            eng.assume(c)
        vals = {k: SReal(x) for k, x in V.items()}
        with patched(pm, ModelCoefficients=TwinC, DailySubmodelParameters=TwinS):
            params = pm.DailyModelParameters.from_2_0_params.__func__(_Shell, _l20_doc(kind, vals))
        m = object.__new__(dm.DailyModel)
        model, unc, hl, cl = m._predict_submodel(params["submodels"]["fw-su_sh_wi"], symarr([vals["T0"]]))
        return model[0]

    with R.symbolic_daily():
        paths = case.explore(run)
    for p in paths:
        rp = ("legacy20", lambda mdl: dict(kind=kind, vals=model_env(mdl, case.inputs)))
        if p.outcome != "ret":
            case.prove(p, False, "no exception", replay=rp)
            continue
        case.twin(p)
        got = lift(p.value) if not isinstance(p.value, (int, float)) else z3.RealVal(p.value)
        got = z3.ToReal(got) if z3.is_int(got) else got
        case.prove(p, got == _l20_formula(kind, V, V["T0"], zmax), "a model read from a 2.0 document predicts the 2.0 formula at every temperature", replay=rp)
    case.note("pydantic validation of the converted coefficients replaced by model_construct twins; the parameters object is a dict shell")


def _Shell(**kw):
    """stands in for the DailyModelParameters constructor (pydantic): hands the keyword arguments back"""
    return kw


def run_case(case: Case, name: str):
    shape, mode = name.split("/")
    if mode == "lemma":
        return run_lemma(case)
    if mode == "rounding":
        return run_rounding(case)
    if shape == "legacy20":
        return run_legacy20(case, mode)
    exact = mode == "pairexact"
    if exact:
        mode = "pair"
    reverse = mode == "singlerev"
    if reverse:
        mode = "single"
    nT = 1 if mode == "single" else 2
    V = R.input_vars(shape, nT)
    case.inputs = list(V.values())
    contract = shape == "hdd_tidd_cdd_smooth" and mode == "pair" and not exact
    K = (Z("kh_eff"), Z("kc_eff")) if contract else None
    refine = []
    if contract:
        P = R.effective(shape, V)
        refine = [K[0] == P["k_h"], K[1] == P["k_c"]]
        case.note("get_smooth_coeffs replaced by its contract (assume-guarantee; contract proved in hdd_tidd_cdd_smooth/lemma)")

    def run():
        return R.sym_predict_submodel(shape, nT, assume=([V["hdd_bp"] < V["cdd_bp"]] if reverse else ()), reverse=reverse)

    with R.symbolic_daily(contract=contract):
        paths = case.explore(run)

    def builder(label):
        def b(model):
            env = model_env(model, case.inputs)
            return dict(shape=shape, mode=mode, label=label, vals=env, reverse=reverse)
        return b

    Ts = [V[f"T{i}"] for i in range(nT)]
    for p in paths:
        if p.outcome != "ret":
            case.rep["exc_outcomes"][type(p.value).__name__] = case.rep["exc_outcomes"].get(type(p.value).__name__, 0) + 1
            # the curve code has no legitimate exception: crash candidate
            case.prove(p, False, "no exception", replay=("submodel", builder("closed form (line / smoothed curve)")), refine=refine)
            continue
        O = {k: [lift(x) if not isinstance(x, (int, float)) else z3.RealVal(x) for x in v] for k, v in p.value.items()}
        O = {k: [z3.ToReal(x) if z3.is_int(x) else x for x in v] for k, v in O.items()}
        m = case.twin(p)
        excl = []
        for T in Ts:
            excl.append(("C11-bp-at-Tmax", R.region_c(shape, V, T, K)))
        via = None
        if mode == "pair" and "smooth" in shape:
            # single-point cuts (base load <= curve <= unsmoothed line) + predictions abstracted by fresh variables:
            # decides the cross-side cases without any exp reasoning; same-side cases fall back to the direct query
            P = R.effective(shape, V, K)
            PV = [Z("P0_abs"), Z("P1_abs")]
            cuts = []
            for j, T in enumerate(Ts):
                pr = O["predicted"][j]
                cuts.append(z3.And(pr >= V["intercept"],
                                   pr <= V["intercept"] + P["beta_h"] * zmax(P["bp_h"] - T, 0) + P["beta_c"] * zmax(T - P["bp_c"], 0)))
            hyps = R.domain(shape, V) + ([R.smooth_contract(V["hdd_bp"], V["hdd_k"], V["cdd_bp"], V["cdd_k"], *K)] if K else [])
            via = dict(cuts=cuts, subst=[(O["predicted"][0], PV[0]), (O["predicted"][1], PV[1])], hyps=hyps)
        for label, claim in _claims(shape, mode, V, O, K).items():
            case.prove(p, claim, label, replay=("submodel", builder(label)), exclude=excl, refine=refine,
                       via=via if label == "lipschitz continuity" else None)
        # trace validation against the jitted implementation
        if not contract:
            case.validate(p, p.value, lambda mdl: model_env(mdl, case.inputs),
                          lambda inp: R.real_predict_submodel(shape, R.swapped(inp) if reverse else inp, [inp[f"T{i}"] for i in range(nT)]))
        if m is not None and len(case.rep["samples"]) < 2:
            case.sample(dict(path_decisions=p.decisions, witness=model_env(m, case.inputs)))

    # expected regimes (vacuity guard)
    if mode == "single" and shape != "tidd":
        P = R.effective(shape, V)
        dom = R.domain(shape, V)
        T = V["T0"]
        if "hdd_beta" in FIELDS[shape]:
            case.reach("heating side", dom + [T < P["bp_h"]])
        if "cdd_beta" in FIELDS[shape]:
            case.reach("cooling side", dom + [T > P["bp_c"]])
        case.reach("flat segment", dom + [T > P["bp_h"], T < P["bp_c"]] if shape.startswith("hdd_tidd_cdd") else dom + [T == P["bp_h"]])
        case.reach("exactly at balance point", dom + [T == P["bp_h"]])
        if "smooth" in shape:
            # reached means: some explored path has k != 0 and the exp term in its result
            hit = any(p.outcome == "ret" and "EXP" in str(lift(p.value["predicted"][0])) for p in paths)
            case.regime("smoothing active", hit)
            clip = any(p.outcome == "ret" and str(R.LNMIN)[:8] in str(z3.simplify(lift(p.value["predicted"][0]))) or
                       (p.outcome == "ret" and _has_clip(p)) for p in paths)
            case.regime("clip at LN_MIN active", clip)


def _has_clip(p):
    s = lift(p.value["predicted"][0]).sexpr()
    return "ite" in s and "EXP" in s
