"""C05 - the counterfactual never depends on reporting-period consumption (daily / billing).

Self-composition inside one path: the real DailyModel._predict is run on (a) the temperature-only frame and
(b) the same temperatures with an arbitrary observed column (own values, own NaN mask).  Every prediction
produced by (b) must be term-identical to (a)'s."""
from __future__ import annotations

import numpy as np
import pandas as pd
import z3

import opendsm.eemeter.models.daily.model as dm
from opendsm.eemeter.models.billing.model import BillingModel
from symv import engine as E
from symv.case import Case
from symv.proxies import SReal, lift, model_env, to_real, NAN
from symv.symarray import SymArray, cells

from . import dailyframe as F
from . import dailyref as R

EXPLANATION = "C05: self-composition of DailyModel._predict with/without an arbitrary observed column; BillingModel monthly aggregation for two observed columns sharing a NaN mask."
BOUNDS = {"quick": dict(rows="2 (sloped layouts) / 3 (flat layout)", layouts=["single-v", "wdwe", "season", "single"]),
          "thorough": dict(rows="3 (sloped layouts) / 4 (flat layout), 5 for the flat billing aggregate", layouts=["single-v", "wdwe", "season", "single"])}
STUBS = ["numba kernels de-jitted", "model from a concrete stored document"]
MODELS_USED = ["symreal ExtensionArray", "symnp.isfinite"]
ASSUMPTIONS = ["hourly (ElasticNet/scalers) and CalTRACK hourly (patsy) are outside the claim",
               "billing aggregation compared for equal NaN masks only: blanking a day legitimately removes that day's prediction from a monthly sum"]
EXPECTED_REGIMES = ["observed NaN on a predicted-able row", "observed present", "heating regime", "flat regime"]
COLS = ["predicted", "predicted_unc", "heating_load", "cooling_load"]


def ENCODED():
    return [dm.DailyModel._predict, dm.DailyModel._initialize_data, dm.DailyModel._meter_segment, dm.DailyModel._predict_submodel,
            BillingModel.predict]


def cases(tier, seed):
    """sloped layouts fork 3 ways per present row (heating/flat/cooling), so they get fewer rows than the flat one"""
    if tier == "thorough":
        out = [f"{lay}/{ik}/3" for lay in ("single-v", "wdwe", "season") for ik in ("pacific-dst", "sydney", "gap", "unsorted")]
        out += [f"single/{ik}/4" for ik in ("pacific-dst", "gap")]
        out += ["billing-agg/flat/5", "billing-agg/v/3"]
    else:
        out = [f"{lay}/{ik}/2" for lay in ("single-v", "wdwe", "season") for ik in ("pacific-dst", "gap")]
        out += ["single/pacific-dst/3", "single/unsorted/3"]
        out += ["billing-agg/flat/3", "billing-agg/v/2"]
    return out


def _predict_pair_real(lay, idx, env, ts, os_):
    m = F.model(lay, tz=str(idx.tz))
    dfa = F.float_frame(idx, env, ts, None)
    dfb = F.float_frame(idx, env, ts, os_)
    return dfa, dfb, m._predict(dfa.copy()), m._predict(dfb.copy())


def replay_pair(inp):
    idx = F.index_catalogue(inp["index"], inp["n"])
    dfa, dfb, a, b = _predict_pair_real(inp["layout"], idx, inp["env"], inp["ts"], inp["os"])
    pr = []
    for t in idx:
        if np.isfinite(dfa.loc[t, "temperature"]) and not np.isfinite(a.loc[t, "predicted"]):
            pr.append(f"{t}: temperature-only run gives no prediction")
        if np.isfinite(b.loc[t, "predicted"]):
            for c in COLS:
                if not (a.loc[t, c] == b.loc[t, c]):
                    pr.append(f"{t}: {c} {a.loc[t, c]} (no usage) vs {b.loc[t, c]} (usage {dfb.loc[t, 'observed']})")
            if a.loc[t, "model_split"] != b.loc[t, "model_split"]:
                pr.append(f"{t}: model_split differs")
    return bool(pr), "; ".join(pr[:4])


def replay_agg(inp):
    idx = pd.date_range("2021-01-31", periods=inp["n"], freq="D", tz="US/Pacific")
    env = inp["env"]
    m = F.model(inp["layout"], BillingModel, tz="US/Pacific")
    outs = []
    for on in ("o", "p"):
        df = F.float_frame(idx, env, inp["ts"], inp["os"], oname=on)
        d = _billing_data(df)
        outs.append(m.predict(d, aggregation="monthly"))
    a, b = outs
    pr = []
    for c in COLS + ["temperature"]:
        x, y = a[c].to_numpy(dtype=float), b[c].to_numpy(dtype=float)
        if not np.allclose(x, y, rtol=1e-12, atol=1e-12, equal_nan=True):
            pr.append(f"{c}: {x} vs {y}")
    return bool(pr), "; ".join(pr)


REPLAY = {"pair": replay_pair, "agg": replay_agg}


def _billing_data(df):
    """a BillingReportingData shell handing out `df` (the data classes themselves are C08-C10)"""
    from opendsm.eemeter.models.billing.data import BillingReportingData

    class Shell(BillingReportingData):
        def __init__(self):
            pass
        df = None
    d = Shell()
    Shell.df = property(lambda self: df.copy())
    d.tz = df.index.tz
    d.warnings = []
    d.disqualification = []
    return d


def run_case(case: Case, name: str):
    lay, ik, n = name.split("/")
    n = int(n)
    if lay == "billing-agg":
        return run_agg(case, ik, n)
    idx = F.index_catalogue(ik, n)
    case.inputs = [z3.Real(f"T{i}") for i in range(n)] + [z3.Real(f"o{i}") for i in range(n)]

    def run():
        m = F.model(lay, tz=str(idx.tz))
        dfb, ts, os_ = F.sym_frame(idx, True)
        dfa = dfb[["temperature"]].copy()
        a = m._predict(dfa)
        b = m._predict(dfb)
        return ts, os_, a, b

    with R.symbolic_daily():
        paths = case.explore(run)
    for p in paths:
        if p.outcome != "ret":
            case.rep["harness_errors"].append(f"unexpected exception in _predict: {p.value!r}")
            continue
        ts, os_, a, b = p.value
        rp = ("pair", (lambda st: lambda mdl: dict(layout=lay, index=ik, n=n, env=model_env(mdl, case.inputs), ts=st[0], os=st[1]))((ts, os_)))
        case.twin(p)
        ok = list(a.index) == list(b.index) == list(idx.sort_values())
        case.prove(p, ok, "same rows in both runs", replay=rp)
        if not ok:
            continue
        A = {c: dict(zip(a.index, cells(a[c]))) for c in COLS + ["model_split"]}
        B = {c: dict(zip(b.index, cells(b[c]))) for c in COLS + ["model_split"]}
        pos = {t: i for i, t in enumerate(idx)}
        for t in idx:
            i = pos[t]
            if ts[i] == "val":
                case.prove(p, F.finite(A["predicted"][t]), "temperature-only data is predicted on every row with a temperature", replay=rp)
            if F.finite(B["predicted"][t]):
                eqs = []
                for c in COLS:
                    x, y = A[c][t], B[c][t]
                    if not (F.finite(x) and F.finite(y)):
                        eqs.append(z3.BoolVal(False))
                    else:
                        eqs.append(to_real(lift(x)) == to_real(lift(y)))
                eqs.append(z3.BoolVal(A["model_split"][t] == B["model_split"][t]))
                case.prove(p, z3.And(*eqs), "prediction, loads, uncertainty and split do not depend on observed usage", replay=rp)
                if isinstance(B["predicted"][t], SReal) and "T" in str(z3.simplify(lift(B["predicted"][t]))):
                    case.regime("heating regime")
                else:
                    case.regime("flat regime")
            case.regime("observed NaN on a predicted-able row", ts[i] == "val" and os_[i] == "nan")
            case.regime("observed present", os_[i] == "val")
        F.validate_frame(case, p, b, (lambda st: lambda env: F.model(lay, tz=str(idx.tz))._predict(F.float_frame(idx, env, st[0], st[1])))((ts, os_)),
                         COLS, stride=1 if case.tier == "thorough" else 4)
        if len(case.rep["samples"]) < 2 and p.model is not None:
            case.sample(dict(temperature_states=ts, observed_states=os_, witness=model_env(p.model, case.inputs)))


def run_agg(case, ik, n):
    """BillingModel.predict(aggregation='monthly') for two observed columns with the same NaN mask"""
    lay = {"flat": "single", "v": "single-v"}[ik]
    idx = pd.date_range("2021-01-31", periods=n, freq="D", tz="US/Pacific")  # spans a month boundary
    case.inputs = [z3.Real(f"T{i}") for i in range(n)] + [z3.Real(f"o{i}") for i in range(n)] + [z3.Real(f"p{i}") for i in range(n)]
    import opendsm.eemeter.models.billing.model as bmod
    from symv.carriers import symnp, patched

    def run():
        m = F.model(lay, BillingModel, tz="US/Pacific")
        df1, ts, os_ = F.sym_frame(idx, True)
        O2 = [NAN if s == "nan" else SReal(z3.Real(f"p{i}")) for i, s in enumerate(os_)]
        df2 = df1.copy()
        df2["observed"] = SymArray(O2)
        a = m.predict(_billing_data(df1), aggregation="monthly")
        b = m.predict(_billing_data(df2), aggregation="monthly")
        return ts, os_, a, b

    with R.symbolic_daily(), patched(bmod, np=symnp):
        paths = case.explore(run)
    for p in paths:
        if p.outcome != "ret":
            case.rep["harness_errors"].append(f"unexpected exception in BillingModel.predict: {p.value!r}")
            continue
        ts, os_, a, b = p.value
        rp = ("agg", (lambda st: lambda mdl: dict(n=n, layout=lay, env=model_env(mdl, case.inputs), ts=st[0], os=st[1]))((ts, os_)))
        case.twin(p)
        ok = list(a.index) == list(b.index)
        eqs = [z3.BoolVal(ok)]
        if ok:
            for c in COLS + ["temperature"]:
                for x, y in zip(cells(a[c]), cells(b[c])):
                    if F.finite(x) != F.finite(y):
                        eqs.append(z3.BoolVal(False))
                    elif F.finite(x):
                        eqs.append(to_real(lift(x)) == to_real(lift(y)))
        case.prove(p, z3.And(*eqs), "monthly aggregates of the counterfactual do not depend on observed values", replay=rp)
        case.regime("observed present", "val" in os_)
