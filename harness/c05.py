"""C05 - the counterfactual never depends on reporting-period consumption (daily / billing).

Self-composition inside one path: the real DailyModel._predict is run on (a) the temperature-only frame and
(b) the same temperatures with an arbitrary observed column (own values, own NaN mask).  Every prediction
produced by (b) must be term-identical to (a)'s."""
from __future__ import annotations

import numpy as np
import pandas as pd
import z3

import opendsm.eemeter.models.daily.model as dm
from opendsm.eemeter.models.billing.model import BillingModel
from symv import engine as E
from symv.case import Case
from symv.proxies import SReal, lift, model_env, to_real, NAN, real
from symv.symarray import SymArray, cells

from . import dailyframe as F
from . import dailyref as R

EXPLANATION = ("C05: self-composition of DailyModel._predict with/without an arbitrary observed column; BillingModel monthly aggregation for two observed columns sharing a NaN mask; "
               "4-call histories on one model object; DailyReportingData built from an hourly electricity feed for two usage columns.")
BOUNDS = {"quick": dict(rows="2 (sloped layouts) / 3 (flat layout)", layouts=["single-v", "wdwe", "season", "single"],
                        histories="4 predict calls on one object, 5 days, usage gaps on the 3 interior days, one shared symbolic temperature",
                        dataclass="48 hourly rows, 3 designated readings may be exactly 0"),
          "thorough": dict(rows="3 (sloped layouts) / 4 (flat layout), 5 for the flat billing aggregate", layouts=["single-v", "wdwe", "season", "single"],
                           histories="4 predict calls on one object, 5 days, usage gaps on any day, one shared symbolic temperature",
                           dataclass="48 hourly rows, 3 designated readings may be exactly 0")}
STUBS = ["numba kernels de-jitted", "model from a concrete stored document", "SufficiencyCriteria._check_extreme_values -> no-op (dataclass case)"]
MODELS_USED = ["symreal ExtensionArray", "symnp.isfinite"]
ASSUMPTIONS = ["hourly model: stored model written by hand in the to_dict() layout (fitting does not run in the pinned environment), concrete weather, every usage reading symbolic; "
               "the sklearn scalers are replaced by affine stand-ins with the stored parameters (a re-fit is recorded and makes the scaler depend on the data it was handed)",
               "CalTRACK hourly (patsy) is outside the claim",
               "dataclass case: all readings except three designated ones are assumed non-zero (each possible zero doubles the paths)",
               "history cases: the days of the period share one symbolic temperature",
               "billing aggregation compared for equal NaN masks only: blanking a day legitimately removes that day's prediction from a monthly sum"]
EXPECTED_REGIMES = ["observed NaN on a predicted-able row", "observed present", "heating regime", "flat regime",
                    "same number of usage gaps at different days in consecutive calls", "zero electricity reading",
                    "hourly model: usage column absent", "hourly model: usage reading missing", "hourly model: span across a daylight-saving change"]
COLS = ["predicted", "predicted_unc", "heating_load", "cooling_load"]


def ENCODED():
    import opendsm.eemeter.models.daily.data as dd
    return [dm.DailyModel._predict, dm.DailyModel._initialize_data, dm.DailyModel._meter_segment, dm.DailyModel._predict_submodel,
            BillingModel.predict, dd._DailyData.__init__, dd._DailyData._set_data, dd._DailyData._compute_temperature_features]


def cases(tier, seed):
    """sloped layouts fork 3 ways per present row (heating/flat/cooling), so they get fewer rows than the flat one"""
    if tier == "thorough":
        out = [f"{lay}/{ik}/3" for lay in ("single-v", "wdwe", "season") for ik in ("pacific-dst", "sydney", "gap", "unsorted")]
        out += [f"single/{ik}/4" for ik in ("pacific-dst", "gap")]
        out += ["billing-agg/flat/5", "billing-agg/v/3"]
    else:
        out = [f"{lay}/{ik}/2" for lay in ("single-v", "wdwe", "season") for ik in ("pacific-dst", "gap")]
        out += ["single/pacific-dst/3", "single/unsorted/3"]
        out += ["billing-agg/flat/3", "billing-agg/v/2"]
    out += ["history/wdwe-flat/5", "history/season/5", "dataclass/daily/elec", "dataclass/daily/dup", "dataclass/daily/long", "hourly-data/gaps/x", "hourly-history/state/x", "caltrack/usage/x", "hourly/standardscaler/x", "hourly/robustscaler/x"]
    return out


def _predict_pair_real(lay, idx, env, ts, os_):
    m = F.model(lay, tz=str(idx.tz))
    dfa = F.float_frame(idx, env, ts, None)
    dfb = F.float_frame(idx, env, ts, os_)
    return dfa, dfb, m._predict(dfa.copy()), m._predict(dfb.copy())


def replay_pair(inp):
    idx = F.index_catalogue(inp["index"], inp["n"])
    dfa, dfb, a, b = _predict_pair_real(inp["layout"], idx, inp["env"], inp["ts"], inp["os"])
    pr = []
    for t in idx:
        if np.isfinite(dfa.loc[t, "temperature"]) and not np.isfinite(a.loc[t, "predicted"]):
            pr.append(f"{t}: temperature-only run gives no prediction")
        if np.isfinite(b.loc[t, "predicted"]):
            for c in COLS:
                if not (a.loc[t, c] == b.loc[t, c]):
                    pr.append(f"{t}: {c} {a.loc[t, c]} (no usage) vs {b.loc[t, c]} (usage {dfb.loc[t, 'observed']})")
            if a.loc[t, "model_split"] != b.loc[t, "model_split"]:
                pr.append(f"{t}: model_split differs")
    return bool(pr), "; ".join(pr[:4])


def replay_agg(inp):
    idx = pd.date_range("2021-01-31", periods=inp["n"], freq="D", tz="US/Pacific")
    env = inp["env"]
    m = F.model(inp["layout"], BillingModel, tz="US/Pacific")
    outs = []
    for on in ("o", "p"):
        df = F.float_frame(idx, env, inp["ts"], inp["os"], oname=on)
        d = _billing_data(df)
        outs.append(m.predict(d, aggregation="monthly"))
    a, b = outs
    pr = []
    for c in COLS + ["temperature"]:
        x, y = a[c].to_numpy(dtype=float), b[c].to_numpy(dtype=float)
        if not np.allclose(x, y, rtol=1e-12, atol=1e-12, equal_nan=True):
            pr.append(f"{c}: {x} vs {y}")
    return bool(pr), "; ".join(pr)


REPLAY = {"pair": replay_pair, "agg": replay_agg}


def _billing_data(df):
    """a BillingReportingData shell handing out `df` (the data classes themselves are C08-C10)"""
    from opendsm.eemeter.models.billing.data import BillingReportingData

    class Shell(BillingReportingData):
        def __init__(self):
            pass
        df = None
    d = Shell()
    Shell.df = property(lambda self: df.copy())
    d.tz = df.index.tz
    d.warnings = []
    d.disqualification = []
    return d


def run_case(case: Case, name: str):
    lay, ik, n = name.split("/")
    if lay == "history":
        return run_history(case, ik, int(n))
    if lay == "hourly-data":
        return run_hourly_data(case)
    if lay == "hourly-history":
        return run_hourly_history(case)
    if lay == "caltrack":
        return run_caltrack(case)
    if lay == "dataclass" and n == "long":
        return run_dataclass_long(case)
    if lay == "dataclass":
        return run_dataclass_dup(case) if n == "dup" else run_dataclass(case)
    if lay == "hourly":
        return run_hourly(case, ik)
    n = int(n)
    if lay == "billing-agg":
        return run_agg(case, ik, n)
    idx = F.index_catalogue(ik, n)
    case.inputs = [z3.Real(f"T{i}") for i in range(n)] + [z3.Real(f"o{i}") for i in range(n)]

    def run():
        m = F.model(lay, tz=str(idx.tz))
        dfb, ts, os_ = F.sym_frame(idx, True)
        dfa = dfb[["temperature"]].copy()
        a = m._predict(dfa)
        b = m._predict(dfb)
        return ts, os_, a, b

    with R.symbolic_daily():
        paths = case.explore(run)
    for p in paths:
        if p.outcome != "ret":
            case.rep["harness_errors"].append(f"unexpected exception in _predict: {p.value!r}")
            continue
        ts, os_, a, b = p.value
        rp = ("pair", (lambda st: lambda mdl: dict(layout=lay, index=ik, n=n, env=model_env(mdl, case.inputs), ts=st[0], os=st[1]))((ts, os_)))
        case.twin(p)
        ok = list(a.index) == list(b.index) == list(idx.sort_values())
        case.prove(p, ok, "same rows in both runs", replay=rp)
        if not ok:
            continue
        A = {c: dict(zip(a.index, cells(a[c]))) for c in COLS + ["model_split"]}
        B = {c: dict(zip(b.index, cells(b[c]))) for c in COLS + ["model_split"]}
        pos = {t: i for i, t in enumerate(idx)}
        for t in idx:
            i = pos[t]
            if ts[i] == "val":
                case.prove(p, F.finite(A["predicted"][t]), "temperature-only data is predicted on every row with a temperature", replay=rp)
            if F.finite(B["predicted"][t]):
                eqs = []
                for c in COLS:
                    x, y = A[c][t], B[c][t]
                    if not (F.finite(x) and F.finite(y)):
                        eqs.append(z3.BoolVal(False))
                    else:
                        eqs.append(to_real(lift(x)) == to_real(lift(y)))
                eqs.append(z3.BoolVal(A["model_split"][t] == B["model_split"][t]))
                case.prove(p, z3.And(*eqs), "prediction, loads, uncertainty and split do not depend on observed usage", replay=rp)
                if isinstance(B["predicted"][t], SReal) and "T" in str(z3.simplify(lift(B["predicted"][t]))):
                    case.regime("heating regime")
                else:
                    case.regime("flat regime")
            case.regime("observed NaN on a predicted-able row", ts[i] == "val" and os_[i] == "nan")
            case.regime("observed present", os_[i] == "val")
        F.validate_frame(case, p, b, (lambda st: lambda env: F.model(lay, tz=str(idx.tz))._predict(F.float_frame(idx, env, st[0], st[1])))((ts, os_)),
                         COLS, stride=1 if case.tier == "thorough" else 4)
        if len(case.rep["samples"]) < 2 and p.model is not None:
            case.sample(dict(temperature_states=ts, observed_states=os_, witness=model_env(p.model, case.inputs)))


def run_agg(case, ik, n):
    """BillingModel.predict(aggregation='monthly') for two observed columns with the same NaN mask"""
    lay = {"flat": "single", "v": "single-v"}[ik]
    idx = pd.date_range("2021-01-31", periods=n, freq="D", tz="US/Pacific")  # spans a month boundary
    case.inputs = [z3.Real(f"T{i}") for i in range(n)] + [z3.Real(f"o{i}") for i in range(n)] + [z3.Real(f"p{i}") for i in range(n)]
    import opendsm.eemeter.models.billing.model as bmod
    from symv.carriers import symnp, patched

    def run():
        m = F.model(lay, BillingModel, tz="US/Pacific")
        df1, ts, os_ = F.sym_frame(idx, True)
        O2 = [NAN if s == "nan" else SReal(z3.Real(f"p{i}")) for i, s in enumerate(os_)]
        df2 = df1.copy()
        df2["observed"] = SymArray(O2)
        a = m.predict(_billing_data(df1), aggregation="monthly")
        b = m.predict(_billing_data(df2), aggregation="monthly")
        return ts, os_, a, b

    with R.symbolic_daily(), patched(bmod, np=symnp):
        paths = case.explore(run)
    for p in paths:
        if p.outcome != "ret":
            case.rep["harness_errors"].append(f"unexpected exception in BillingModel.predict: {p.value!r}")
            continue
        ts, os_, a, b = p.value
        rp = ("agg", (lambda st: lambda mdl: dict(n=n, layout=lay, env=model_env(mdl, case.inputs), ts=st[0], os=st[1]))((ts, os_)))
        case.twin(p)
        ok = list(a.index) == list(b.index)
        eqs = [z3.BoolVal(ok)]
        if ok:
            for c in COLS + ["temperature"]:
                for x, y in zip(cells(a[c]), cells(b[c])):
                    if F.finite(x) != F.finite(y):
                        eqs.append(z3.BoolVal(False))
                    elif F.finite(x):
                        eqs.append(to_real(lift(x)) == to_real(lift(y)))
        case.prove(p, z3.And(*eqs), "monthly aggregates of the counterfactual do not depend on observed values", replay=rp)
        case.regime("observed present", "val" in os_)


# ------------------------------------------------------------------ call histories on one model object

HIST_IDX = {"wdwe-flat": "2021-03-12", "season": "2021-05-29"}  # Fri..Tue across the DST change / May->June (shoulder->summer)


def _history_real(lay, n, env, os_, ps_):
    idx = pd.date_range(HIST_IDX[lay], periods=n, freq="D", tz="US/Pacific")
    m = F.model(lay, tz="US/Pacific")
    ts = ["val"] * n
    env = dict(env)
    env.update({f"T{i}": env.get("T0", 0.0) for i in range(n)})
    fa = F.float_frame(idx, env, ts, None)
    fb = F.float_frame(idx, env, ts, os_, oname="o")
    fc = F.float_frame(idx, env, ts, ps_, oname="p")
    return idx, (fa, fb, fc), [m._predict(f.copy()) for f in (fa, fb, fc, fa)]


def replay_history(inp):
    idx, frames, outs = _history_real(inp["layout"], inp["n"], inp["env"], inp["os"], inp["ps"])
    a = outs[0]
    pr = []
    for who, f, b in (("2nd call", frames[1], outs[1]), ("3rd call", frames[2], outs[2]), ("4th call (temperature only again)", frames[0], outs[3])):
        for t in idx:
            if t in b.index and np.isfinite(b.loc[t, "predicted"]):
                for c in COLS + ["model_split"]:
                    if not (a.loc[t, c] == b.loc[t, c]):
                        pr.append(f"{who}, {t.date()}: {c} {b.loc[t, c]} but {a.loc[t, c]} when predicted first and without usage")
    return bool(pr), "; ".join(pr[:4])


def run_history(case, lay, n):
    """one model object predicts the same period four times: without usage, with usage column o, with usage column p
    (independent NaN masks), without usage again.  Every prediction produced must equal the first call's."""
    idx = pd.date_range(HIST_IDX[lay], periods=n, freq="D", tz="US/Pacific")
    case.inputs = [z3.Real("T0")] + [z3.Real(f"o{i}") for i in range(n)] + [z3.Real(f"p{i}") for i in range(n)]
    free = range(n) if case.tier == "thorough" else range(1, n - 1)  # rows whose usage may be missing

    def col(prefix):
        out, st = [], []
        for i in range(n):
            s = F.choose(f"{prefix}_state{i}", ["val", "nan"]) if i in free else "val"
            st.append(s)
            out.append(SReal(z3.Real(f"{prefix}{i}")) if s == "val" else NAN)
        return out, st

    def run():
        m = F.model(lay, tz="US/Pacific")
        T = SymArray([SReal(z3.Real("T0")) for i in range(n)])  # one symbolic temperature for the whole period (each own symbol forks 3 ways per row)
        O, os_ = col("o")
        Pp, ps_ = col("p")
        fa = pd.DataFrame({"temperature": T}, index=idx)
        fb = pd.DataFrame({"temperature": T, "observed": SymArray(O)}, index=idx)
        fc = pd.DataFrame({"temperature": T, "observed": SymArray(Pp)}, index=idx)
        return os_, ps_, [m._predict(f.copy()) for f in (fa, fb, fc, fa)]

    with R.symbolic_daily():
        paths = case.explore(run)
    for p in paths:
        if p.outcome != "ret":
            case.rep["harness_errors"].append(f"unexpected exception in _predict: {p.value!r}")
            continue
        os_, ps_, outs = p.value
        rp = ("history", (lambda st: lambda mdl: dict(layout=lay, n=n, env=model_env(mdl, case.inputs), os=st[0], ps=st[1]))((os_, ps_)))
        case.twin(p)
        a = outs[0]
        A = {c: dict(zip(a.index, cells(a[c]))) for c in COLS + ["model_split"]}
        for k, b in enumerate(outs[1:], start=2):
            B = {c: dict(zip(b.index, cells(b[c]))) for c in COLS + ["model_split"]}
            eqs = [z3.BoolVal(list(b.index) == list(idx))]
            for t in idx:
                if t in B["predicted"] and F.finite(B["predicted"][t]):
                    for c in COLS:
                        x, y = A[c].get(t), B[c][t]
                        eqs.append(to_real(lift(x)) == to_real(lift(y)) if F.finite(x) and F.finite(y) else z3.BoolVal(False))
                    eqs.append(z3.BoolVal(A["model_split"].get(t) == B["model_split"][t]))
            case.prove(p, z3.And(*eqs), f"call {k} on the same model object: every prediction equals the first (usage-free) call's", replay=rp)
        case.regime("same number of usage gaps at different days in consecutive calls", os_.count("nan") == ps_.count("nan") > 0 and os_ != ps_)
    case.sample(dict(layout=lay, rows=n, calls=4, paths=len(paths)))


# ------------------------------------------------------------------ through the reporting data class

def _dc_frames(n, sym, env=None):
    from . import dataclass as D
    idx = pd.date_range("2021-03-13", periods=n, freq="h", tz="US/Pacific")
    T = D.col("T", n, {5}, sym, env)
    return idx, T


def _dc_frame(idx, T, obs):
    from opendsm.eemeter.models.daily.data import DailyReportingData
    d = DailyReportingData(pd.DataFrame({"observed": obs, "temperature": T}, index=idx), is_electricity_data=True)
    return d.df


def replay_dataclass(inp):
    import logging
    logging.disable(logging.CRITICAL)
    n, env = inp["n"], inp["env"]
    idx, T = _dc_frames(n, False, env)
    o = np.array([float(env.get(f"o{i}", 1.0)) for i in range(n)])
    if inp.get("o5") == "nan":
        o[5] = np.nan
    q = np.array([float(env.get(f"q{i}", 1.0)) for i in range(n)])
    d1, d2 = _dc_frame(idx, T, o), _dc_frame(idx, T.copy(), q)
    m = F.model("single-v", tz="US/Pacific")
    r1, r2 = m._predict(d1[["temperature"]].copy()), m._predict(d2[["temperature"]].copy())
    pr = []
    if list(d1.index) != list(d2.index):
        pr.append(f"days differ: {[str(t.date()) for t in d1.index]} vs {[str(t.date()) for t in d2.index]}")
    for t in d1.index.intersection(d2.index):
        x, y = d1.loc[t, "temperature"], d2.loc[t, "temperature"]
        if not ((x != x and y != y) or x == y):
            pr.append(f"{t.date()}: temperature {x} with usage o vs {y} with usage q, prediction {r1.loc[t, 'predicted']} vs {r2.loc[t, 'predicted']} "
                      f"(zero readings in o at hours {[i for i in range(n) if o[i] == 0]})")
    return bool(pr), "; ".join(pr[:4])


def run_dataclass(case):
    """hourly electricity feed -> DailyReportingData, for two usage columns over the same temperatures; a zero reading
    (turned into a missing reading by the data class) must not move the day's temperature - the only thing the
    prediction is computed from (pair cases)"""
    from . import dataclass as D
    n = 48
    case.inputs = [z3.Real(f"T{i}") for i in range(n)] + [z3.Real(f"o{i}") for i in range(n)] + [z3.Real(f"q{i}") for i in range(n)]
    zero_rows = (3, 5, 30)  # row 5 also lacks its temperature reading: a row with neither usage nor temperature

    def run():
        eng = E.cur()
        for i in range(n):
            if i not in zero_rows:
                eng.assume(z3.Real(f"o{i}") != 0)
            eng.assume(z3.Real(f"q{i}") != 0)
        idx, T = _dc_frames(n, True)
        # the reading of row 5 (whose temperature is missing) may itself be missing in the first usage column
        o5 = F.choose("o5_state", ["val", "nan"])
        eng.path_notes["o5"] = o5
        o = SymArray([NAN if (i == 5 and o5 == "nan") else SReal(z3.Real(f"o{i}")) for i in range(n)])
        q = SymArray([SReal(z3.Real(f"q{i}")) for i in range(n)])
        return _dc_frame(idx, T, o), _dc_frame(idx, T.copy(), q)

    with D.symbolic_dataclasses():
        paths = case.explore(run)
    for p in paths:
        if p.outcome != "ret":
            case.rep["harness_errors"].append(f"data class raised {p.value!r}")
            continue
        d1, d2 = p.value
        rp = ("dataclass", (lambda st: lambda mdl: dict(n=n, o5=st, env=model_env(mdl, case.inputs)))(p.notes.get("o5", "val")))
        case.twin(p)
        eqs = [z3.BoolVal(list(d1.index) == list(d2.index))]
        X, Y = dict(zip(d1.index, cells(d1["temperature"]))), dict(zip(d2.index, cells(d2["temperature"])))
        for t in d1.index:
            if t in Y:
                eqs.append(to_real(lift(X[t])) == to_real(lift(Y[t])) if F.finite(X[t]) and F.finite(Y[t]) else z3.BoolVal(F.finite(X[t]) == F.finite(Y[t])))
        case.prove(p, z3.And(*eqs), "daily temperature handed to the model does not depend on the usage readings (incl. zero electricity readings)", replay=rp)
        case.regime("row with neither usage nor temperature", p.notes.get("o5") == "nan")
        zero = any(str(c) in ("o%d == 0" % i, "0 == o%d" % i) for c in p.pc for i in zero_rows)
        case.regime("zero electricity reading", zero)
    case.sample(dict(feed="hourly electricity, 48 rows", paths=len(paths)))



# ------------------------------------------------------------------ hourly model (usage symbolic, weather concrete)

HOURLY_SPANS = {"spring": ("2021-03-12", 4), "autumn": ("2021-11-05", 4), "summer": ("2021-07-01", 3)}


def _hourly_runs(scaling, span, env, states, absent):
    """real run (sklearn scalers untouched): temperature-only prediction vs prediction with the usage column of the witness"""
    from . import hourlyref as H
    start, days = HOURLY_SPANS[span]
    a = H.model(scaling=scaling).predict(H.reporting(start, days, usage=False))
    d = H.reporting(start, days, usage=not absent)
    if not absent:
        n = len(d._df)
        d._df["observed"] = np.array([np.nan if states.get(str(i)) == "nan" else float(env.get(f"o{i}", 1.0)) for i in range(n)])
    b = H.model(scaling=scaling).predict(d)
    return a, b


def replay_hourly(inp):
    import logging
    logging.disable(logging.CRITICAL)
    a, b = _hourly_runs(inp["scaling"], inp["span"], inp["env"], inp["states"], inp["absent"])
    pr = []
    if list(a.index) != list(b.index):
        pr.append("rows differ between the run without and with usage")
    else:
        x, y = a["predicted"].to_numpy(dtype=float), b["predicted"].to_numpy(dtype=float)
        bad = [i for i in range(len(x)) if not ((x[i] != x[i] and y[i] != y[i]) or x[i] == y[i])]
        if bad:
            i = bad[0]
            pr.append(f"{len(bad)} of {len(x)} hourly predictions depend on the usage column, e.g. {a.index[i]}: {x[i]} without usage, {y[i]} with it")
    return bool(pr), "; ".join(pr)


def run_hourly(case, scaling):
    """HourlyModel._predict (real feature pipeline, real ElasticNet) on a stored model that knows every month x weekday;
    the weather is concrete, every usage reading is symbolic (three designated readings may be missing, or the column
    absent).  Every prediction must be the number the temperature-only run gives."""
    import opendsm.eemeter.models.hourly.model as hm
    from . import hourlyref as H
    spans = list(HOURLY_SPANS) if case.tier == "thorough" else ["spring", "summer"]
    case.inputs = [z3.Real(f"o{i}") for i in range(24 * 5)]

    def run():
        span = F.choose("span", spans)
        start, days = HOURLY_SPANS[span]
        m = H.model(scaling=scaling)
        ref = m.predict(H.reporting(start, days, usage=False))
        m._feature_scaler, m._y_scaler = H.Affine(m._feature_scaler), H.Affine(m._y_scaler)
        absent = F.choose("usage_column", ["present", "absent"]) == "absent"
        d = H.reporting(start, days, usage=not absent)
        states = {}
        if not absent:
            n = len(d._df)
            O = [SReal(z3.Real(f"o{i}")) for i in range(n)]
            for i in (2, 30, n - 1):  # one reading on the first day, one on the transition day, the last one
                states[str(i)] = F.choose(f"o_state{i}", ["val", "nan"])
                if states[str(i)] == "nan":
                    O[i] = NAN
            d._df["observed"] = SymArray(O)
        out = m._predict(d)
        return span, absent, states, ref, out, m._feature_scaler.refits + m._y_scaler.refits

    paths = case.explore(run)
    for p in paths:
        if p.outcome != "ret":
            case.rep["harness_errors"].append(f"hourly predict raised {p.value!r}")
            continue
        span, absent, states, ref, out, refits = p.value
        rp = ("hourly", (lambda sp, ab, st: lambda mdl: dict(scaling=scaling, span=sp, absent=ab, states=st, env=model_env(mdl, case.inputs)))(span, absent, states))
        case.twin(p)
        same_rows = list(out.index) == list(ref.index)
        case.prove(p, same_rows and refits == 0, "same rows as the temperature-only run; no scaler of the fitted model is re-fitted during predict", replay=rp)
        if not same_rows:
            continue
        eqs = []
        for x, y in zip(cells(ref["predicted"]), cells(out["predicted"])):
            if isinstance(y, SReal):
                eqs.append(to_real(lift(y)) == float(x) if F.finite(x) else z3.BoolVal(False))
            else:
                eqs.append(z3.BoolVal((x != x and y != y) or x == y))
        case.prove(p, z3.And(*eqs), "every hourly prediction equals the temperature-only run's (independent of all usage readings)", replay=rp)
        case.regime("hourly model: usage column absent", absent)
        case.regime("hourly model: usage reading missing", "nan" in states.values())
        case.regime("hourly model: span across a daylight-saving change", span != "summer")
    case.sample(dict(scaling=scaling, spans=spans, paths=len(paths)))


REPLAY["hourly"] = replay_hourly
REPLAY["history"] = replay_history
REPLAY["dataclass"] = replay_dataclass


# hourly data class: the weather columns it hands to the model (filled temperature gaps included) must not depend on
# how much usage the reporting period carries.  Values are concrete (the interpolation is masked-array code); the usage
# variant, the gap layout and the period length are solver-chosen finite choices.
HD_USAGE = ["absent", "all-missing", "first-3-days", "every-other-day", "full", "full-doubled"]
HD_GAPS = {"short": [(30, 33), (100, 102)], "long": [(40, 75)], "edge": [(0, 5), (200, 215)]}


def _hourly_data_frame(days, gaps, usage):
    from . import hourlyref as H
    df = H.weather("2021-06-01", days, usage=True)
    for a, b in HD_GAPS[gaps]:
        df.iloc[a:b, df.columns.get_loc("temperature")] = np.nan
    n = len(df)
    if usage == "absent":
        df = df.drop(columns=["observed"])
    elif usage == "all-missing":
        df["observed"] = np.nan
    elif usage == "first-3-days":
        df.iloc[72:, df.columns.get_loc("observed")] = np.nan
    elif usage == "every-other-day":
        df.loc[(np.arange(n) // 24) % 2 == 1, "observed"] = np.nan
    elif usage == "full-doubled":
        df["observed"] = df["observed"] * 2
    return df


def replay_hourly_data(inp):
    import logging
    logging.disable(logging.CRITICAL)
    from opendsm.eemeter.models.hourly.data import HourlyReportingData
    from . import hourlyref as H
    ref = HourlyReportingData(_hourly_data_frame(inp["days"], inp["gaps"], "absent"), is_electricity_data=True)
    alt = HourlyReportingData(_hourly_data_frame(inp["days"], inp["gaps"], inp["usage"]), is_electricity_data=True)
    pr = []
    a, b = ref.df, alt.df
    if list(a.index) != list(b.index):
        pr.append(f"rows differ ({len(a)} vs {len(b)})")
    else:
        for c in ("temperature", "interpolated_temperature"):
            x, y = a[c].to_numpy(dtype=float), b[c].to_numpy(dtype=float)
            bad = [i for i in range(len(x)) if not ((x[i] != x[i] and y[i] != y[i]) or x[i] == y[i])]
            if bad:
                pr.append(f"{c}: {len(bad)} hours differ between the usage-free frame and usage '{inp['usage']}', e.g. {a.index[bad[0]]}: {x[bad[0]]} vs {y[bad[0]]}")
        if not pr:
            m = H.model()
            pa, pb = m.predict(ref)["predicted"].to_numpy(dtype=float), H.model().predict(alt)["predicted"].to_numpy(dtype=float)
            bad = [i for i in range(len(pa)) if not ((pa[i] != pa[i] and pb[i] != pb[i]) or pa[i] == pb[i])]
            if bad:
                pr.append(f"{len(bad)} hourly predictions differ, e.g. {a.index[bad[0]]}: {pa[bad[0]]} vs {pb[bad[0]]}")
    return bool(pr), "; ".join(pr[:3])


REPLAY["hourly_data"] = replay_hourly_data


def run_hourly_data(case):
    case.inputs = []

    def run():
        inp = dict(days=F.choose("days", [6, 12]), gaps=F.choose("gaps", list(HD_GAPS)), usage=F.choose("usage", HD_USAGE[1:]))
        return inp, replay_hourly_data(inp)

    paths = case.explore(run)
    for p in paths:
        if p.outcome != "ret":
            case.rep["harness_errors"].append(f"hourly data class scenario raised {p.value!r}")
            continue
        inp, (bad, det) = p.value
        if not case.ground(not bad, "hourly data class: filled temperatures (and the predictions from them) do not depend on the usage the period carries"):
            case.violation("hourly data class: filled temperatures (and the predictions from them) do not depend on the usage the period carries", "hourly_data", inp, det)
        case.regime("hourly feed with a temperature gap and little usage", inp["usage"] in ("all-missing", "first-3-days"))
    case.sample(dict(entry="HourlyReportingData", scenarios=len(paths)))


# CalTRACK hourly: the predicted column is computed from temperature and calendar only (the uncertainty column is
# computed from the reporting usage by design and is not part of this property)
CT_USAGE = ["all-missing", "partly-missing", "present", "doubled", "with-zeros"]


def replay_caltrack(inp):
    import logging
    logging.disable(logging.CRITICAL)
    from . import caltrackref as CT
    ref = CT.model().predict(CT.reporting(inp["span"], "absent", inp["tz"]))
    alt = CT.model().predict(CT.reporting(inp["span"], inp["usage"], inp["tz"]))
    pr = []
    if list(ref.index) != list(alt.index):
        pr.append(f"rows differ ({len(ref)} vs {len(alt)})")
    elif not CT.same(ref["predicted"], alt["predicted"]):
        a, b = ref["predicted"].to_numpy(dtype=float), alt["predicted"].to_numpy(dtype=float)
        bad = [i for i in range(len(a)) if not ((a[i] != a[i] and b[i] != b[i]) or a[i] == b[i])]
        pr.append(f"{len(bad)} of {len(a)} CalTRACK hourly predictions depend on the usage column ('{inp['usage']}'), e.g. {ref.index[bad[0]]}: {a[bad[0]]} vs {b[bad[0]]}")
    return bool(pr), "; ".join(pr)


REPLAY["caltrack"] = replay_caltrack


def run_caltrack(case):
    from . import caltrackref as CT
    case.inputs = []

    def run():
        inp = dict(span=F.choose("span", list(CT.SPANS)), usage=F.choose("usage", CT_USAGE), tz=F.choose("tz", ["UTC", "US/Pacific"]))
        return inp, replay_caltrack(inp)

    paths = case.explore(run)
    for p in paths:
        if p.outcome != "ret":
            case.rep["harness_errors"].append(f"CalTRACK scenario raised {p.value!r}")
            continue
        inp, (bad, det) = p.value
        label = "CalTRACK hourly: the predicted column does not depend on the reporting period's usage"
        if not case.ground(not bad, label):
            case.violation(label, "caltrack", inp, det)
        case.regime("CalTRACK hourly model predicts with and without usage")
    case.sample(dict(family="CalTRACK hourly", scenarios=len(paths)))


# a reporting period longer than a year, built with from_series from daily usage and hourly weather: the daily temperatures
# (all the prediction is computed from) must not depend on the usage series - blank days, a blank or missing tail, scaling
LONG_VARIANTS = ["none", "blank-interior", "blank-two-days", "blank-tail", "cut", "scaled", "all-blank"]


def _long_frame(variant, start, days=400):
    from opendsm.eemeter.models.daily.data import DailyReportingData
    tz = "US/Pacific"
    midx = pd.date_range(start, periods=days, freq="D", tz=tz)
    rng = np.random.default_rng(4)
    usage = pd.Series(10 + rng.random(days), index=midx, name="observed")
    tidx = pd.date_range(midx[0], midx[-1] + pd.Timedelta(days=1), freq="h", inclusive="left")
    temp = pd.Series(50 + 20 * np.sin(np.arange(len(tidx)) / 500.0) + rng.normal(0, 2, len(tidx)), index=tidx, name="temperature")
    if variant == "none":
        return DailyReportingData.from_series(None, temp, is_electricity_data=False, tzinfo=midx.tz).df
    if variant == "blank-interior":
        usage.iloc[380] = np.nan  # the same day of the year has a reading in the first year
    elif variant == "blank-two-days":
        usage.iloc[[200, 381]] = np.nan
    elif variant == "blank-tail":
        usage.iloc[385:] = np.nan
    elif variant == "cut":
        usage = usage.iloc[:385]
    elif variant == "scaled":
        usage = usage * 3
    elif variant == "all-blank":
        usage[:] = np.nan
    return DailyReportingData.from_series(usage, temp, is_electricity_data=False).df


def replay_dataclass_long(inp):
    import logging
    logging.disable(logging.CRITICAL)
    ref, alt = _long_frame("full", inp["start"]), _long_frame(inp["variant"], inp["start"])
    common = ref.index.intersection(alt.index)
    pr = []
    if len(common) < 380:
        pr.append(f"only {len(common)} common days")
    a, b = ref.loc[common, "temperature"].to_numpy(dtype=float), alt.loc[common, "temperature"].to_numpy(dtype=float)
    bad = [i for i in range(len(common)) if not ((a[i] != a[i] and b[i] != b[i]) or a[i] == b[i])]
    if bad:
        pr.append(f"{len(bad)} daily temperatures depend on the usage series ('{inp['variant']}'), e.g. {common[bad[0]].date()}: {a[bad[0]]} with full usage, {b[bad[0]]} otherwise")
    return bool(pr), "; ".join(pr)


REPLAY["dataclass_long"] = replay_dataclass_long


def run_dataclass_long(case):
    case.inputs = []

    def run():
        inp = dict(variant=F.choose("variant", LONG_VARIANTS), start=F.choose("start", ["2021-05-01", "2021-01-10"]))
        return inp, replay_dataclass_long(inp)

    paths = case.explore(run)
    for p in paths:
        if p.outcome != "ret":
            case.rep["harness_errors"].append(f"long-period scenario raised {p.value!r}")
            continue
        inp, (bad, det) = p.value
        label = "daily temperatures of a period longer than a year (from_series) do not depend on the usage series"
        if not case.ground(not bad, label):
            case.violation(label, "dataclass_long", inp, det)
        case.regime("reporting period longer than a year with blank usage days")
    case.sample(dict(entry="DailyReportingData.from_series, 400 days", scenarios=len(paths)))


# hourly model used twice: what an earlier, shorter prediction leaves behind must not make a later prediction depend on
# the later period's usage (shuffled / scaled / absent usage give the prediction of a fresh model without usage)
def replay_hourly_history(inp):
    import logging
    logging.disable(logging.CRITICAL)
    from . import hourlyref as H
    m = H.model(scaling=inp["scaling"])
    m.predict(H.reporting(*{"two weeks in June": ("2021-06-07", 14), "three days in January": ("2021-01-04", 3)}[inp["first"]], usage=inp["first_usage"]))
    span = ("2021-03-01", 120)
    d = H.reporting(*span, usage=(inp["usage"] != "absent"), seed=3)
    if inp["usage"] == "shuffled":
        v = d._df["observed"].to_numpy().copy()
        np.random.default_rng(9).shuffle(v)
        d._df["observed"] = v
    elif inp["usage"] == "scaled":
        d._df["observed"] = d._df["observed"] * 4.0
    got = m.predict(d)["predicted"].to_numpy(dtype=float)
    want = H.model(scaling=inp["scaling"]).predict(H.reporting(*span, usage=False, seed=3))["predicted"].to_numpy(dtype=float)
    bad = [i for i in range(len(want)) if not ((got[i] != got[i] and want[i] != want[i]) or got[i] == want[i])] if got.shape == want.shape else [0]
    return bool(bad), (f"{len(bad)} of {len(want)} hourly predictions of the second call depend on its usage column ('{inp['usage']}') after an earlier predict of {inp['first']}" if bad else "")


REPLAY["hourly_history"] = replay_hourly_history


def run_hourly_history(case):
    case.inputs = []

    def run():
        inp = dict(scaling=F.choose("scaling", ["standardscaler", "robustscaler"]), first=F.choose("first", ["two weeks in June", "three days in January"]),
                   first_usage=F.choose("first_usage", [True, False]), usage=F.choose("usage", ["present", "shuffled", "scaled", "absent"]))
        return inp, replay_hourly_history(inp)

    paths = case.explore(run)
    for p in paths:
        if p.outcome != "ret":
            case.rep["harness_errors"].append(f"hourly history scenario raised {p.value!r}")
            continue
        inp, (bad, det) = p.value
        label = "hourly model: after an earlier, shorter prediction a later prediction still does not depend on the later period's usage"
        if not case.ground(not bad, label):
            case.violation(label, "hourly_history", inp, det)
        case.regime("hourly model predicts a long period after a short one")
    case.sample(dict(entry="HourlyModel.predict twice on one object", scenarios=len(paths)))


# a timestamp delivered twice (CalTRACK 2.3.2.2 keeps the first record): which record's temperature survives must not
# depend on the usage readings of the two records
DUP_N, DUP_AT = 48, 10


def _dup_frame(sym, env, ostates, prefix):
    from . import dataclass as D
    from opendsm.eemeter.models.daily.data import DailyReportingData
    idx = pd.date_range("2021-06-01", periods=DUP_N, freq="h", tz="US/Pacific")
    idx = idx.insert(DUP_AT + 1, idx[DUP_AT])
    def cell(name, nan=False):
        if nan:
            return NAN if sym else np.nan
        return real(name) if sym else float(env.get(name, 1.0))
    T = [cell(f"T{i}") for i in range(DUP_N)]
    T.insert(DUP_AT + 1, cell("Td"))
    o = [cell(f"{prefix}{i}", nan=(i == DUP_AT and ostates[0] == "nan")) for i in range(DUP_N)]
    o.insert(DUP_AT + 1, cell(f"{prefix}d", nan=(ostates[1] == "nan")))
    frame = pd.DataFrame({"observed": SymArray(o) if sym else np.array(o, dtype=float), "temperature": SymArray(T) if sym else np.array(T, dtype=float)}, index=idx)
    return DailyReportingData(frame, is_electricity_data=False).df


def replay_dataclass_dup(inp):
    import logging
    logging.disable(logging.CRITICAL)
    env = inp["env"]
    d1, d2 = _dup_frame(False, env, inp["os"], "o"), _dup_frame(False, env, inp["qs"], "q")
    pr = []
    if list(d1.index) != list(d2.index):
        pr.append("days differ between the two usage columns")
    for t in d1.index.intersection(d2.index):
        x, y = d1.loc[t, "temperature"], d2.loc[t, "temperature"]
        if not ((x != x and y != y) or x == y):
            pr.append(f"{t.date()}: daily temperature {x} with usage states {inp['os']} at the duplicated timestamp vs {y} with {inp['qs']}")
    return bool(pr), "; ".join(pr[:3])


REPLAY["dataclass_dup"] = replay_dataclass_dup


def run_dataclass_dup(case):
    from . import dataclass as D
    names = [f"T{i}" for i in range(DUP_N)] + ["Td"] + [f"o{i}" for i in range(DUP_N)] + ["od"] + [f"q{i}" for i in range(DUP_N)] + ["qd"]
    case.inputs = [z3.Real(x) for x in names]

    def run():
        os_ = [F.choose("o_first", ["val", "nan"]), F.choose("o_second", ["val", "nan"])]
        qs_ = [F.choose("q_first", ["val", "nan"]), F.choose("q_second", ["val", "nan"])]
        return os_, qs_, _dup_frame(True, None, os_, "o"), _dup_frame(True, None, qs_, "q")

    with D.symbolic_dataclasses():
        paths = case.explore(run)
    for p in paths:
        if p.outcome != "ret":
            case.rep["harness_errors"].append(f"data class raised {p.value!r}")
            continue
        os_, qs_, d1, d2 = p.value
        rp = ("dataclass_dup", (lambda a, b: lambda mdl: dict(os=a, qs=b, env=model_env(mdl, case.inputs)))(os_, qs_))
        case.twin(p)
        eqs = [z3.BoolVal(list(d1.index) == list(d2.index))]
        X, Y = dict(zip(d1.index, cells(d1["temperature"]))), dict(zip(d2.index, cells(d2["temperature"])))
        for t in d1.index:
            if t in Y:
                eqs.append(to_real(lift(X[t])) == to_real(lift(Y[t])) if F.finite(X[t]) and F.finite(Y[t]) else z3.BoolVal(F.finite(X[t]) == F.finite(Y[t])))
        case.prove(p, z3.And(*eqs), "daily temperature does not depend on the usage readings of a timestamp that was delivered twice", replay=rp)
        case.regime("duplicated timestamp: first record without usage, second with", os_ == ["nan", "val"] or qs_ == ["nan", "val"])
    case.sample(dict(feed="hourly gas, 48 rows + one duplicated timestamp", paths=len(paths)))

