"""Shared pieces for the daily/billing curve harnesses (C01, C11, C12):
the seven stored model shapes, their admissible domain, a symbolic runner for
DailyModel._predict_submodel, the real (jitted) runner, and the reference
closed form evaluated from the JSON fields alone."""
from __future__ import annotations

import contextlib

import numpy as np
import z3

import opendsm.eemeter.models.daily.model as dm
import opendsm.eemeter.models.daily.optimize_results as orr
from opendsm.eemeter.models.daily.base_models import full_model as fm
from opendsm.eemeter.models.daily.parameters import (
    DailySubmodelParameters,
    ModelCoefficients,
    ModelType,
)
from opendsm.eemeter.models.daily.utilities import base_model as bm
from opendsm.common.utils import LN_MIN_POS_SYSTEM_VALUE, LN_MAX_POS_SYSTEM_VALUE

from symv import engine as E
from symv.carriers import dejit, patched, rebuild, symarr, symnp
from symv.proxies import EXP, SReal, lift, real, rv, to_real

SHAPES = {
    "hdd_tidd_cdd_smooth": ModelType.HDD_TIDD_CDD_SMOOTH,
    "hdd_tidd_cdd": ModelType.HDD_TIDD_CDD,
    "hdd_tidd_smooth": ModelType.HDD_TIDD_SMOOTH,
    "hdd_tidd": ModelType.HDD_TIDD,
    "tidd_cdd_smooth": ModelType.TIDD_CDD_SMOOTH,
    "tidd_cdd": ModelType.TIDD_CDD,
    "tidd": ModelType.TIDD,
}
FIELDS = {
    "hdd_tidd_cdd_smooth": ["hdd_bp", "hdd_beta", "hdd_k", "cdd_bp", "cdd_beta", "cdd_k"],
    "hdd_tidd_cdd": ["hdd_bp", "hdd_beta", "cdd_bp", "cdd_beta"],
    "hdd_tidd_smooth": ["hdd_bp", "hdd_beta", "hdd_k"],
    "hdd_tidd": ["hdd_bp", "hdd_beta"],
    "tidd_cdd_smooth": ["cdd_bp", "cdd_beta", "cdd_k"],
    "tidd_cdd": ["cdd_bp", "cdd_beta"],
    "tidd": [],
}
TC = ["T_min", "T_max", "T_min_seg", "T_max_seg"]
MIN_PCT_K = 0.01


def Z(name):
    return z3.Real(name)


def input_vars(shape, nT):
    names = ["intercept"] + FIELDS[shape] + TC + ["f_unc"] + [f"T{i}" for i in range(nT)]
    return {n: Z(n) for n in names}


def swapped(V):
    """the same model with the heating/cooling triples exchanged (a document whose balance points are in reversed order)"""
    W = dict(V)
    for a, b in (("hdd_bp", "cdd_bp"), ("hdd_beta", "cdd_beta"), ("hdd_k", "cdd_k")):
        if a in V and b in V:
            W[a], W[b] = V[b], V[a]
    return W


def domain(shape, V, strict_slopes=True):
    """validity predicate of a stored sub-model (what fit + reduce_model can produce, see C12)"""
    c = [V["T_min"] <= V["T_min_seg"], V["T_min_seg"] <= V["T_max_seg"], V["T_max_seg"] <= V["T_max"],
         V["T_min"] < V["T_max"], V["f_unc"] >= 0]
    F = FIELDS[shape]
    for bp in ("hdd_bp", "cdd_bp"):
        if bp in F:
            c += [V[bp] >= V["T_min"], V[bp] <= V["T_max"]]
    if "hdd_bp" in F and "cdd_bp" in F:
        c += [V["hdd_bp"] <= V["cdd_bp"]]
        # a full model whose distinct balance points touch the ends of the fitted range loses that slope in
        # fix_full_model_x and is stored as a single-slope shape by reduce_model (proved in C12)
        c += [z3.Or(V["hdd_bp"] == V["cdd_bp"], z3.And(V["cdd_bp"] < V["T_max"], V["hdd_bp"] > V["T_min"]))]
        c += [V["hdd_beta"] > 0 if strict_slopes else V["hdd_beta"] >= 0,
              V["cdd_beta"] > 0 if strict_slopes else V["cdd_beta"] >= 0]
    else:
        if "hdd_beta" in F:
            c += [V["hdd_beta"] < 0]  # single-slope heating shapes store the signed slope
        if "cdd_beta" in F:
            c += [V["cdd_beta"] > 0 if strict_slopes else V["cdd_beta"] >= 0]
    if shape == "hdd_tidd_cdd_smooth":
        c += [V["hdd_k"] >= 0, V["cdd_k"] >= 0]  # final-fit bounds can exceed 1; the fractions are normalised when they sum to > 1
    elif "hdd_k" in F:
        c += [V["hdd_k"] >= 0]
    elif "cdd_k" in F:
        c += [V["cdd_k"] >= 0]
    return c


def make_submodel(shape, vals, construct=True):
    """vals: name -> proxy/float.  construct=True: model_construct (no pydantic-core validation)."""
    kw = dict(model_type=SHAPES[shape], intercept=vals["intercept"])
    for f in ["hdd_bp", "hdd_beta", "hdd_k", "cdd_bp", "cdd_beta", "cdd_k"]:
        kw[f] = vals[f] if f in FIELDS[shape] else None
    tc = {k: vals[k] for k in TC}
    if construct:
        coeffs = ModelCoefficients.model_construct(**kw)
        return DailySubmodelParameters.model_construct(coefficients=coeffs, temperature_constraints=tc, f_unc=vals["f_unc"])
    coeffs = ModelCoefficients(**kw)
    return DailySubmodelParameters(coefficients=coeffs, temperature_constraints=tc, f_unc=vals["f_unc"])


_full_model = dejit(fm.full_model)
_get_full_model_x = dejit(fm.get_full_model_x)
_fix_full_model_x = dejit(fm.fix_full_model_x)
_get_smooth_coeffs = rebuild(bm.get_smooth_coeffs, np=symnp)


def smooth_contract(hdd_bp, pct_h, cdd_bp, pct_c, kh, kc):
    """contract of get_smooth_coeffs for hdd_bp <= cdd_bp, pct >= 0 (proved on the real function by
    the */lemma case): returns [hdd_bp + kh, kh, cdd_bp - kc, kc] with"""
    tiny = z3.And(pct_h < rv(MIN_PCT_K), pct_c < rv(MIN_PCT_K))
    return z3.And(kh >= 0, kc >= 0, kh + kc <= cdd_bp - hdd_bp,
                  z3.Implies(tiny, z3.And(kh == 0, kc == 0)),
                  z3.Implies(pct_h == 0, kh == 0), z3.Implies(pct_c == 0, kc == 0),
                  z3.Implies(hdd_bp == cdd_bp, z3.And(kh == 0, kc == 0)))


def _smooth_stub(hdd_bp, pct_hdd_k, cdd_bp, pct_cdd_k, min_pct_k=0.01):
    """assume-guarantee stand-in: fresh kh, kc constrained only by the proved contract."""
    eng = E.cur()
    kh, kc = Z("kh_eff"), Z("kc_eff")
    eng.assume(smooth_contract(to_real(lift(hdd_bp)), to_real(lift(pct_hdd_k)), to_real(lift(cdd_bp)), to_real(lift(pct_cdd_k)), kh, kc))
    return symarr([hdd_bp + SReal(kh), SReal(kh), cdd_bp - SReal(kc), SReal(kc)])


@contextlib.contextmanager
def symbolic_daily(contract=False):
    """module globals of the code under test swapped for de-jitted twins / symnp.
    contract=True: get_smooth_coeffs replaced by its proved contract (fresh kh_eff, kc_eff)."""
    gsc = _smooth_stub if contract else _get_smooth_coeffs
    with patched(dm, full_model=_full_model, get_full_model_x=_get_full_model_x, np=symnp,
                 get_smooth_coeffs=gsc), \
         patched(orr, full_model=_full_model, get_full_model_x=_get_full_model_x, np=symnp,
                 get_smooth_coeffs=gsc):
        yield


def sym_smooth_coeffs():
    """the real get_smooth_coeffs on proxies (lemma case)."""
    eng = E.cur()
    a, ph, b, pc_ = Z("hdd_bp"), Z("hdd_k"), Z("cdd_bp"), Z("cdd_k")
    for c in [a <= b, ph >= 0, pc_ >= 0]:
        eng.assume(c)
    r = _get_smooth_coeffs(SReal(a), SReal(ph), SReal(b), SReal(pc_))
    return list(r)


def real_smooth_coeffs(vals):
    return [float(x) for x in bm.get_smooth_coeffs(vals["hdd_bp"], vals["hdd_k"], vals["cdd_bp"], vals["cdd_k"])]


def sym_predict_submodel(shape, nT, assume=(), reverse=False):
    """run the real DailyModel._predict_submodel on proxies (call inside Engine.explore + symbolic_daily).
    reverse=True: the document lists the balance points in reversed order (heating/cooling triples exchanged);
    the domain and the reference are stated on the ordered twin."""
    V = input_vars(shape, nT)
    eng = E.cur()
    for c in domain(shape, V):
        eng.assume(c)
    for c in assume:
        eng.assume(c)
    vals = {k: SReal(v) for k, v in (swapped(V) if reverse else V).items()}
    sub = make_submodel(shape, vals)
    m = object.__new__(dm.DailyModel)
    T = symarr([vals[f"T{i}"] for i in range(nT)])
    model, unc, hl, cl = m._predict_submodel(sub, T)
    return dict(predicted=list(model), predicted_unc=list(unc), heating_load=list(hl), cooling_load=list(cl))


_REAL_MODEL = None


def real_predict_submodel(shape, vals, Ts):
    """the unpatched implementation (jitted kernels, validated pydantic objects)."""
    global _REAL_MODEL
    if _REAL_MODEL is None:
        _REAL_MODEL = dm.DailyModel()
    sub = make_submodel(shape, {k: float(v) for k, v in vals.items() if not k.startswith("T") or k in TC}, construct=False)
    model, unc, hl, cl = _REAL_MODEL._predict_submodel(sub, np.array([float(t) for t in Ts], dtype=float))
    return dict(predicted=list(map(float, model)), predicted_unc=list(map(float, unc)),
                heating_load=list(map(float, hl)), cooling_load=list(map(float, cl)))


# ---------------------------------------------------------------- reference

def zabs(x):
    return z3.If(x >= 0, x, -x)


def zmax(a, b):
    return z3.If(a >= b, a, b)


def zmin(a, b):
    return z3.If(a <= b, a, b)


def effective(shape, V, K=None):
    """Effective curve parameters from the JSON fields alone (independent restatement of the
    documented conventions): returns dict(bp_h, bp_c, beta_h>=0, beta_c>=0, k_h, k_c, nom_h, nom_c)
    where bp_* are the points at which the flat segment ends, nom_* the nominal balance points
    through which the asymptotic lines pass."""
    zero = z3.RealVal(0)
    F = FIELDS[shape]
    if shape == "tidd":
        return dict(bp_h=zero, bp_c=zero, beta_h=zero, beta_c=zero, k_h=zero, k_c=zero, nom_h=zero, nom_c=zero, flat=True)
    if shape in ("hdd_tidd_cdd", "hdd_tidd_cdd_smooth"):
        bh, bc = V["hdd_bp"], V["cdd_bp"]
        beta_h, beta_c = V["hdd_beta"], V["cdd_beta"]
        if shape == "hdd_tidd_cdd":
            k_h = k_c = zero
        else:
            ph, pc_ = V["hdd_k"], V["cdd_k"]
            tiny = z3.And(ph < rv(MIN_PCT_K), pc_ < rv(MIN_PCT_K))
            s = ph + pc_
            phn = z3.If(s > 1, ph / s, ph)
            pcn = z3.If(s > 1, pc_ / s, pc_)
            k_h = z3.If(tiny, zero, phn * (bc - bh))
            k_c = z3.If(tiny, zero, pcn * (bc - bh))
            if K is not None:  # assume-guarantee mode: the contract symbols stand for the two values above
                k_h, k_c = K
        # a slope at a balance point sitting on the fitted range's end is dropped (documented in fix_full_model_x)
        return dict(bp_h=bh + k_h, bp_c=bc - k_c, beta_h=beta_h, beta_c=beta_c, k_h=k_h, k_c=k_c, nom_h=bh, nom_c=bc, flat=False)
    if shape in ("hdd_tidd", "hdd_tidd_smooth"):
        bp = V["hdd_bp"]
        if shape == "hdd_tidd":  # unsmoothed single-slope models pin the balance point inside the segment limits
            bp = zmin(zmax(bp, V["T_min_seg"]), V["T_max_seg"])
        k = V["hdd_k"] if "hdd_k" in F else zero
        return dict(bp_h=bp, bp_c=bp, beta_h=-V["hdd_beta"], beta_c=zero, k_h=k, k_c=zero, nom_h=bp - k, nom_c=bp, flat=False)
    if shape in ("tidd_cdd", "tidd_cdd_smooth"):
        bp = V["cdd_bp"]
        if shape == "tidd_cdd":
            bp = zmin(zmax(bp, V["T_min_seg"]), V["T_max_seg"])
        k = V["cdd_k"] if "cdd_k" in F else zero
        return dict(bp_h=bp, bp_c=bp, beta_h=zero, beta_c=V["cdd_beta"], k_h=zero, k_c=k, nom_h=bp, nom_c=bp + k, flat=False)
    raise KeyError(shape)


LNMIN = float(LN_MIN_POS_SYSTEM_VALUE)
LNMAX = float(LN_MAX_POS_SYSTEM_VALUE)


def reference(shape, V, T, K=None):
    """documented piecewise heating/cooling formula evaluated from the JSON parameters alone.
    heating side (T < bp_h):  c + beta_h*(nom_h - T) + beta_h*k_h*exp((T-bp_h)/k_h)   [k_h>0]
                              c + beta_h*(bp_h - T)                                   [k_h=0]
    cooling side symmetric; c in between."""
    P = effective(shape, V, K)
    c = V["intercept"]
    if P["flat"]:
        return c

    def side(beta, k, bp, dist):  # dist = distance beyond the balance point (>0)
        u = -dist / k
        u = z3.If(u < rv(LNMIN), rv(LNMIN), u)
        smooth = c + beta * dist + beta * k * (EXP(u) - 1)
        return z3.If(z3.Or(k == 0, beta == 0), c + beta * dist, smooth)

    heat = side(P["beta_h"], P["k_h"], P["bp_h"], P["bp_h"] - T)
    cool = side(P["beta_c"], P["k_c"], P["bp_c"], T - P["bp_c"])
    return z3.If(T < P["bp_h"], heat, z3.If(T > P["bp_c"], cool, c))


def region_c(shape, V, T, K=None):
    """known finding C11-c: heating curve extended above a balance point sitting on T_max
    (full_model treats every temperature as heating when hdd_bp == cdd_bp >= T_max)."""
    P = effective(shape, V, K)
    if P["flat"]:
        return z3.BoolVal(False)
    return z3.And(P["bp_h"] == P["bp_c"], P["bp_c"] >= V["T_max"], T > P["bp_c"])
