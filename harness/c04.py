"""C04 - the disqualification gate is fail-closed and survives storage.

Executed symbolically: the real fit()/predict() wrappers of DailyModel, BillingModel and HourlyModel and
HourlyModel._model_fit_is_acceptable, with the numerical work (_fit/_adaptive_fit/_predict) replaced by stubs that
return fresh symbols.  Solver-quantified: every CVRMSE / cvrmse_adj / pnrmse_adj value (incl. None), every threshold,
every combination of flags, disqualification-list length (0..2), data-object class, timezone pair, GHI configuration."""
from __future__ import annotations

import json
import types

import numpy as np
import pandas as pd
import z3

import opendsm.eemeter.models.daily.model as dm
import opendsm.eemeter.models.hourly.model as hm
from opendsm.eemeter.common.exceptions import DataSufficiencyError, DisqualifiedModelError
from opendsm.eemeter.common.warnings import EEMeterWarning
from opendsm.eemeter.models.billing.data import BillingBaselineData, BillingReportingData
from opendsm.eemeter.models.billing.model import BillingModel
from opendsm.eemeter.models.daily.data import DailyBaselineData, DailyReportingData
from opendsm.eemeter.models.hourly.data import HourlyBaselineData, HourlyReportingData
from symv import engine as E
from symv.case import Case
from symv.proxies import SReal, boolean, lift, model_env, real

from . import dailyframe as F

EXPLANATION = "C04: fit/predict gate logic of the three model families with stubbed numerics; persistence of disqualifications through to_json/from_json (daily, billing; hourly on a hand-written stored model)."
BOUNDS = {"quick": dict(dq_list_length="0..2", timezones=["US/Pacific", "US/Eastern", "UTC", "America/Denver", "America/Phoenix"], classes=["baseline", "reporting", "foreign", "baseline/reporting class of another model family"]),
          "thorough": dict(dq_list_length="0..3", timezones=["US/Pacific", "US/Eastern", "UTC", "America/Denver", "America/Phoenix", "Europe/London"], classes=["baseline", "reporting", "foreign", "baseline/reporting class of another model family"])}
STUBS = ["_fit/_adaptive_fit: set error['CVRMSE'] / baseline_metrics to fresh symbols and is_fitted=True", "_predict: returns a sentinel frame",
         "data objects: object.__new__(RealDataClass) with the attributes the gate reads (disqualification, warnings, tz, df)",
         "hourly settings thresholds: attribute proxy over the real settings object"]
MODELS_USED = []
ASSUMPTIONS = ["whether _fit succeeds numerically is outside the claim (C-level code; under the installed numpy/sklearn the real daily/hourly fit crashes)",
               "hourly storage: checked on one hand-written stored model (hourly/persist: ndq x override x json/dict route), concretely",
               "'raises exactly when' is read as: DisqualifiedModelError <=> fitted and the guards checked before it pass and dq and no override; any other refusal must be an exception, never a frame"]
EXPECTED_REGIMES = ["fit refused for disqualified data", "fit with override", "poor fit adds a disqualification", "predict refused (DisqualifiedModelError)",
                    "predict with override", "timezone mismatch", "foreign data class", "data class of another model family", "unfitted model", "metric undefined (None)"]
SENTINEL = "FRAME"
TZS = ["US/Pacific", "US/Eastern", "UTC", "America/Denver", "America/Phoenix"]  # Denver/Phoenix: same offset in winter, different zones


def ENCODED():
    return [dm.DailyModel.fit, dm.DailyModel.predict, BillingModel.fit, BillingModel.predict, hm.HourlyModel.fit, hm.HourlyModel.predict,
            hm.HourlyModel._model_fit_is_acceptable, dm.DailyModel.from_dict, dm.DailyModel.to_dict]


def cases(tier, seed):
    return ["daily/fit", "daily/predict", "billing/fit", "billing/predict", "hourly/fit", "hourly/predict", "daily/persist", "billing/persist",
            "daily/persistfit", "billing/persistfit", "hourly/persist", "hourly/realfit"]


SIBLING = {"daily": "billing", "billing": "daily", "hourly": "daily"}
ROLES_FOREIGN = ["foreign", "sibling-baseline", "sibling-reporting"]
FAM = {
    "daily": (dm.DailyModel, DailyBaselineData, DailyReportingData),
    "billing": (BillingModel, BillingBaselineData, BillingReportingData),
    "hourly": (hm.HourlyModel, HourlyBaselineData, HourlyReportingData),
}


FLAGS = {"False": False, "True": True, "np.False_": np.False_, "0": 0, "np.True_": np.True_}


def flag(v):
    """cfg stores the flag by name (JSON-able); the call receives the object"""
    return FLAGS[v] if isinstance(v, str) else v


def mkwarn(i):
    return EEMeterWarning(qualified_name=f"eemeter.sufficiency_criteria.dq{i}", description="d", data={})


def mkdata(cls, ndq, tz, columns=("temperature", "observed")):
    """data object shell: the real class (so isinstance holds), only the attributes the gate reads"""
    class Shell(cls):
        def __init__(self):
            pass
    frame = pd.DataFrame({c: [1.0] for c in columns}, index=pd.date_range("2021-01-01", periods=1, freq="D", tz=tz))
    Shell.df = property(lambda self: frame.copy())
    d = Shell()
    d._df = frame
    d.disqualification = [mkwarn(i) for i in range(ndq)]
    d.warnings = []
    d.tz = frame.index.tz
    d.is_electricity_data = True
    return d


class Foreign:
    """a data object of a foreign type (duck-typed like a data class)"""
    def __init__(self, tz):
        self.tz = pd.date_range("2021-01-01", periods=1, tz=tz).tz
        self.disqualification = []
        self.warnings = []
        self.df = pd.DataFrame({"temperature": [1.0], "observed": [1.0]}, index=pd.date_range("2021-01-01", periods=1, freq="D", tz=tz))

    def log_warnings(self):
        pass


def pick_data(fam, role, ndq, tz, columns=("temperature", "observed")):
    _, B, Rp = FAM[fam]
    if role == "baseline":
        return mkdata(B, ndq, tz, columns)
    if role == "reporting":
        return mkdata(Rp, ndq, tz, columns)
    if role.startswith("sibling-"):
        # the data classes of another model family are foreign types too (a billing data object handed to a daily model, ...)
        _, B2, R2 = FAM[SIBLING[fam]]
        return mkdata(B2 if role.endswith("baseline") else R2, ndq, tz, columns)
    return Foreign(tz)


# ----------------------------------------------------------------- scenario runners (shared by symbolic run and replay)

def scenario_fit(fam, cfg, metric):
    """cfg: role, ndq, ignore, (hourly: ghi_cols, features, adaptive); metric: dict of proxies or floats (or None)"""
    Model = FAM[fam][0]
    if fam == "hourly":
        cols = ("temperature", "observed", "ghi") if cfg["ghi_cols"] else ("temperature", "observed")
        data = pick_data(fam, cfg["role"], cfg["ndq"], "US/Pacific", cols)
        m = Model()
        if cfg["features"] == "temperature":
            m._ts_features = ["temperature"]
        elif cfg["features"] == "ghi":
            m._ts_features = ["temperature", "ghi"]
        real_settings = m.settings

        class SettingsProxy:
            def __getattr__(self, n):
                if n == "cvrmse_threshold" and "thr_c" in metric:
                    return metric["thr_c"]
                if n == "pnrmse_threshold" and "thr_p" in metric:
                    return metric["thr_p"]
                return getattr(nonlocal_holder["s"], n)

            def add_default_features(self, columns):
                real_settings_new = real_settings.add_default_features(columns)
                nonlocal_holder["s"] = real_settings_new
                return self
        nonlocal_holder = {"s": real_settings}
        m.settings = SettingsProxy()

        def _fit(d):
            m.baseline_metrics = types.SimpleNamespace(cvrmse_adj=metric["cvrmse_adj"], pnrmse_adj=metric["pnrmse_adj"])
            m.is_fitted = True
            m.baseline_timezone = d.tz
            return m
        m._fit = _fit
        m._adaptive_fit = _fit
    else:
        data = pick_data(fam, cfg["role"], cfg["ndq"], "US/Pacific")
        m = Model()
        if "thr" in metric:
            real_settings = m.settings

            class SettingsProxy:
                def __getattr__(self, n):
                    if n == "cvrmse_threshold":
                        return metric["thr"]
                    return getattr(real_settings, n)
            m.settings = SettingsProxy()

        def _fit(df):
            m.error["CVRMSE"] = metric["cvrmse"]
            m.model = {}  # no sub-models: fit() may rebuild the stored parameters from it
            m.is_fitted = True
            return m
        m._fit = _fit
    before = len(data.disqualification)
    dq_snapshot, w_snapshot = list(data.disqualification), list(data.warnings)
    dq_obj, w_obj = data.disqualification, data.warnings

    def data_state():
        same = data.disqualification is dq_obj and data.warnings is w_obj and \
            len(data.disqualification) == len(dq_snapshot) and all(a is b for a, b in zip(data.disqualification, dq_snapshot)) and \
            len(data.warnings) == len(w_snapshot) and all(a is b for a, b in zip(data.warnings, w_snapshot))
        return dict(data_unchanged=same, data_dq_after=[w.qualified_name for w in data.disqualification], data_warn_after=[w.qualified_name for w in data.warnings])
    try:
        r = m.fit(data, ignore_disqualification=flag(cfg["ignore"]))
    except Exception as ex:
        return dict(kind="raise", exc=type(ex).__name__, model_dq=None, returned_self=False, **data_state())
    names = [w.qualified_name for w in m.disqualification]
    return dict(kind="return", exc=None, model_dq=len(m.disqualification), returned_self=(r is m), dq_names=names,
                fitted=bool(getattr(m, "is_fitted", False)), data_dq_before=before, **data_state())


def scenario_predict(fam, cfg):
    """cfg: fitted, ndq, ignore, tz_model, tz_data, role, (hourly: missing_feature)"""
    Model = FAM[fam][0]
    m = Model()
    m.is_fitted = cfg["fitted"]
    m.disqualification = [mkwarn(i) for i in range(cfg["ndq"])]
    m.warnings = []
    m.baseline_timezone = pd.date_range("2021-01-01", periods=1, tz=cfg["tz_model"]).tz if fam != "daily" else cfg["tz_model"]
    if fam == "hourly":
        m._ts_features = ["temperature", "ghi"] if cfg.get("missing_feature") else ["temperature"]
    m._predict = lambda *a, **k: SENTINEL
    data = pick_data(fam, cfg["role"], 0, cfg["tz_data"])
    try:
        r = m.predict(data, ignore_disqualification=flag(cfg["ignore"]))
    except Exception as ex:
        return dict(kind="raise", exc=type(ex).__name__)
    return dict(kind="return", exc=None, is_frame=(r == SENTINEL))


# ----------------------------------------------------------------- expected verdicts (independent statement of the property)

def expect_fit(fam, cfg):
    """returns (must_raise: None|set of exception names, ...) ignoring the metric"""
    if cfg["role"] != "baseline":
        return {"TypeError"}
    if cfg["ndq"] > 0 and not flag(cfg["ignore"]):
        return {"DataSufficiencyError"}
    if fam == "hourly" and cfg["features"] == "ghi" and not cfg["ghi_cols"]:
        return {"ValueError"}
    return None


def poor_fit_formula(fam, metric):
    if fam == "hourly":
        def passes(v, thr):
            return z3.BoolVal(False) if v is None else lift(v) < lift(thr)
        return z3.Not(z3.Or(passes(metric["cvrmse_adj"], metric["thr_c"]), passes(metric["pnrmse_adj"], metric["thr_p"])))
    return lift(metric["cvrmse"]) > lift(metric["thr"])


def poor_fit_concrete(fam, metric):
    if fam == "hourly":
        def passes(v, thr):
            return v is not None and v < thr
        return not (passes(metric["cvrmse_adj"], metric["thr_c"]) or passes(metric["pnrmse_adj"], metric["thr_p"]))
    return metric["cvrmse"] > metric["thr"]


def expect_predict(fam, cfg):
    """(may_return, must_be_dme)"""
    guards_ok = cfg["fitted"] and cfg["tz_model"] == cfg["tz_data"] and cfg["role"] in ("baseline", "reporting") and not cfg.get("missing_feature")
    blocked = cfg["ndq"] > 0 and not flag(cfg["ignore"])
    return (guards_ok and not blocked), (guards_ok and blocked)


# ----------------------------------------------------------------- replay

def _metric_floats(fam, env, nones):
    if fam == "hourly":
        return dict(cvrmse_adj=None if "cvrmse_adj" in nones else env["cvrmse_adj"], pnrmse_adj=None if "pnrmse_adj" in nones else env["pnrmse_adj"],
                    thr_c=env["thr_c"], thr_p=env["thr_p"])
    return dict(cvrmse=env["cvrmse"], thr=env["thr"])


def replay_fit(inp):
    fam, cfg = inp["fam"], inp["cfg"]
    metric = _metric_floats(fam, inp["env"], inp.get("nones", []))
    r = scenario_fit(fam, cfg, metric)
    return judge_fit(fam, cfg, r, poor_fit_concrete(fam, metric)), f"{r} for {cfg} metric={metric}"


def judge_fit(fam, cfg, r, poor):
    exp = expect_fit(fam, cfg)
    if exp is not None:
        return not (r["kind"] == "raise" and r["exc"] in exp)
    if r["kind"] != "return":
        return True
    want = cfg["ndq"] + (1 if poor else 0)
    return not (r["returned_self"] and r["fitted"] and r["model_dq"] == want)


def replay_predict(inp):
    fam, cfg = inp["fam"], inp["cfg"]
    r = scenario_predict(fam, cfg)
    return judge_predict(fam, cfg, r), f"{r} for {cfg}"


def judge_predict(fam, cfg, r):
    may_return, must_dme = expect_predict(fam, cfg)
    if may_return:
        return not (r["kind"] == "return" and r["is_frame"])
    if r["kind"] == "return":
        return True  # fail-open
    if must_dme:
        return r["exc"] != "DisqualifiedModelError"
    return r["exc"] == "DisqualifiedModelError" and not (cfg["ndq"] > 0 and not flag(cfg["ignore"]))


def replay_persist_hourly(inp):
    """stored hourly model (hand-written document, see hourlyref) with ndq disqualifications: load, write, load again;
    predict on real reporting data must raise DisqualifiedModelError exactly when a disqualification is stored and not overridden"""
    import logging
    logging.disable(logging.CRITICAL)
    from . import hourlyref as H
    ndq, ignore, route = inp["ndq"], inp["ignore"], inp.get("route", "json")
    doc = H.document()
    dq = [dict(qualified_name=f"eemeter.sufficiency_criteria.dq{i}", description="d", data={} if i % 2 == 0 else {"x": 1.0}) for i in range(ndq)]
    doc["info"]["disqualification"] = dq
    m1 = hm.HourlyModel.from_dict(doc)
    m2 = hm.HourlyModel.from_json(m1.to_json()) if route == "json" else hm.HourlyModel.from_dict(m1.to_dict())
    verdicts = []
    for m in (m1, m2):
        try:
            out = m.predict(H.reporting("2021-06-07", 3), ignore_disqualification=ignore)
            verdicts.append("return" if len(out) else "empty")
        except DisqualifiedModelError:
            verdicts.append("dme")
        except Exception as ex:
            verdicts.append(type(ex).__name__)
    want = "dme" if (ndq > 0 and not ignore) else "return"
    names = [w.qualified_name for w in m2.disqualification]
    bad = verdicts != [want, want] or names != [d["qualified_name"] for d in dq]
    return bad, f"hourly, {ndq} stored disqualification(s), ignore={ignore}, route {route}: loaded {verdicts[0]}, reloaded {verdicts[1]} (expected {want}); restored {names}"


def replay_persist(inp):
    if inp["fam"] == "hourly":
        return replay_persist_hourly(inp)
    fam, ndq, ignore = inp["fam"], inp["ndq"], inp["ignore"]
    Model = FAM[fam][0]
    # stored records with and without a payload (several sufficiency disqualifications carry data={})
    dq = [dict(qualified_name=f"eemeter.sufficiency_criteria.dq{i}", description="d", data={} if i % 2 == 0 else {"x": 1.0}) for i in range(ndq)]
    m1 = Model.from_dict(F.doc("single", Model, tz="US/Pacific", dq=dq))
    m2 = Model.from_json(m1.to_json())
    m2._predict = lambda *a, **k: SENTINEL
    data = pick_data(fam, "reporting", 0, "US/Pacific")
    try:
        r = m2.predict(data, ignore_disqualification=ignore)
        got = "return"
    except DisqualifiedModelError:
        got = "dme"
    except Exception as ex:
        got = type(ex).__name__
    want = "dme" if (ndq > 0 and not ignore) else "return"
    names = [w.qualified_name for w in m2.disqualification]
    bad = got != want or names != [d["qualified_name"] for d in dq]
    return bad, f"stored {ndq} disqualification(s), ignore={ignore}: {got} (expected {want}); restored {names}"


def replay_persistfit(inp):
    """fit through the REAL DailyModel.fit/_fit (everything before _fit's tail stubbed on the instance, so the real order
    error -> params -> is_fitted -> poor-fit append is executed), then to_json/from_json: the restored model's gate must
    give the same verdict as the in-memory one"""
    import types as _t
    from opendsm.eemeter.models.daily.parameters import ModelCoefficients
    fam, ndq, ignore_fit, poor, ignore_predict = inp["fam"], inp["ndq"], inp["ignore_fit"], inp["poor"], inp["ignore_predict"]
    prior = inp.get("prior", "none")  # an earlier fit of the SAME model object: "none" | "good" | "poor" (with its own inherited dq)
    Model = FAM[fam][0]
    m = Model()
    m._initialize_data = lambda md: (md, None)
    m._combinations = lambda: ["fw-su_sh_wi"]
    m._components = lambda: ["fw-su_sh_wi"]
    m._best_combination = lambda print_out=False: "fw-su_sh_wi"
    sub = _t.SimpleNamespace(T_min=0.0, T_max=100.0, T_min_seg=5.0, T_max_seg=95.0, f_unc=1.0,
                             named_coeffs=ModelCoefficients(model_type="tidd", intercept=10.0))
    m._final_fit = lambda combo: {"fw-su_sh_wi": sub}

    def residuals(is_poor):
        # the real _get_error_metrics runs on these: RMSE = cv, mean(obs) = 1  ->  CVRMSE = cv
        cv = 2.0 if is_poor else 0.5
        comp = _t.SimpleNamespace(wSSE=4 * cv * cv, N=4, resid=np.array([cv, -cv, cv, -cv]), obs=np.array([0.5, 1.5, 0.5, 1.5]))
        m._fit_components = lambda: {"fw-su_sh_wi": comp}
    if prior != "none":
        residuals(prior == "poor")
        m.fit(pick_data(fam, "baseline", 1 if prior == "poor" else 0, "US/Pacific"), ignore_disqualification=True)
    data = pick_data(fam, "baseline", ndq, "US/Pacific")
    residuals(poor)
    try:
        m.fit(data, ignore_disqualification=ignore_fit)
    except DataSufficiencyError:
        return False, "fit refused (nothing to store)"
    if inp.get("refused_after"):
        # a later fit of the same object on a disqualified baseline of another zone is refused: the model stays the fit it was
        try:
            m.fit(pick_data(fam, "baseline", 1, "Asia/Tokyo"), ignore_disqualification=False)
            return True, "fit on a disqualified baseline was not refused"
        except DataSufficiencyError:
            pass
    rep = pick_data(fam, "reporting", 0, "US/Pacific")
    rep_other = pick_data(fam, "reporting", 0, "Asia/Tokyo")

    def verdict(model):
        model._predict = lambda *a, **k: SENTINEL
        try:
            model.predict(rep, ignore_disqualification=ignore_predict)
            return "predicts"
        except DisqualifiedModelError:
            return "DisqualifiedModelError"
        except Exception as ex:
            return type(ex).__name__
    v1 = verdict(m)
    m2 = Model.from_json(m.to_json())
    v2 = verdict(m2)
    for who, model in (("in memory", m), ("reloaded", m2)):
        model._predict = lambda *a, **k: SENTINEL
        try:
            model.predict(rep_other, ignore_disqualification=True)
            return True, f"{fam}: the {who} model predicts for reporting data of another timezone than its baseline's (refused later fit: {bool(inp.get('refused_after'))})"
        except Exception:
            pass
    n1, n2 = [w.qualified_name for w in m.disqualification], [w.qualified_name for w in m2.disqualification]
    want = "DisqualifiedModelError" if ((ndq > 0 or poor) and not ignore_predict) else "predicts"
    want_n = ndq + (1 if poor else 0)
    bad = v1 != want or v2 != want or n1 != n2 or len(n1) != want_n
    return bad, f"{fam}: earlier fit of the same object: {prior}; {ndq} inherited disqualification(s), poor fit={poor}: in memory {v1} {n1}; after to_json/from_json {v2} {n2}; expected {want}"


def replay_realfit(inp):
    """a REAL hourly fit (sklearn shim restored by the harness, see hourlyref.enable_fit): the gate of the fitted object and of
    the model read back from its stored form"""
    import logging
    logging.disable(logging.CRITICAL)
    from opendsm.eemeter.models.hourly.data import HourlyBaselineData, HourlyReportingData
    from . import hourlyref as H
    H.enable_fit()
    frame = H.baseline_frame(noise=inp["noise"], days=(200 if inp["short"] else 365))
    data = HourlyBaselineData(frame, is_electricity_data=True)
    m = hm.HourlyModel()
    pr = []
    try:
        m.fit(data, ignore_disqualification=False)
        refused = False
    except DataSufficiencyError:
        refused = True
    if refused != bool(data.disqualification):
        return True, f"fit refused={refused} for baseline disqualifications {[w.qualified_name for w in data.disqualification]}"
    if refused:
        m.fit(data, ignore_disqualification=True)
    rep = HourlyReportingData(H.baseline_frame(noise=0.05, days=30, seed=5)[["temperature"]], is_electricity_data=True)
    want_block = bool(m.disqualification)
    names = [w.qualified_name for w in m.disqualification]
    for who, model in (("fitted object", m), ("model read back from to_json()", hm.HourlyModel.from_json(m.to_json()))):
        for ignore in (False, True):
            try:
                out = model.predict(rep, ignore_disqualification=ignore)
                got = "predicts"
            except DisqualifiedModelError:
                got = "DisqualifiedModelError"
            want = "DisqualifiedModelError" if (want_block and not ignore) else "predicts"
            if got != want:
                pr.append(f"{who}, ignore={ignore}: {got}, expected {want} (model disqualifications {names})")
        if [w.qualified_name for w in model.disqualification] != names:
            pr.append(f"{who}: disqualifications {[w.qualified_name for w in model.disqualification]} != {names}")
    return bool(pr), "; ".join(pr[:3]) + f" [poor fit: {'eemeter.model_fit_metrics' in names}, inherited: {len(data.disqualification)}]"


REPLAY = {"fit": replay_fit, "predict": replay_predict, "persist": replay_persist, "persistfit": replay_persistfit, "realfit": replay_realfit}


# ----------------------------------------------------------------- symbolic runs

def run_case(case: Case, name: str):
    fam, what = name.split("/")
    if what == "fit":
        return run_fit(case, fam)
    if what == "predict":
        return run_predict(case, fam)
    if what == "persistfit":
        return run_persistfit(case, fam)
    if what == "realfit":
        return run_realfit(case)
    return run_persist(case, fam)


def run_fit(case, fam):
    names = ["cvrmse_adj", "pnrmse_adj", "thr_c", "thr_p"] if fam == "hourly" else ["cvrmse", "thr"]
    case.inputs = [z3.Real(n) for n in names]
    maxdq = 3 if case.tier == "thorough" else 2

    def run():
        cfg = dict(role=F.choose("role", ["baseline", "reporting"] + ROLES_FOREIGN), ndq=F.choose("ndq", list(range(maxdq + 1))),
                   ignore=F.choose("ignore", list(FLAGS)))
        nones = []
        if fam == "hourly":
            cfg["ghi_cols"] = F.choose("ghi_cols", [False, True])
            cfg["features"] = F.choose("features", ["default", "temperature", "ghi"])
            metric = {}
            for k in ("cvrmse_adj", "pnrmse_adj"):
                if F.choose(f"{k}_none", [False, True]):
                    metric[k] = None
                    nones.append(k)
                else:
                    metric[k] = real(k)
            metric["thr_c"], metric["thr_p"] = real("thr_c"), real("thr_p")
        else:
            metric = dict(cvrmse=real("cvrmse"), thr=real("thr"))
        r = scenario_fit(fam, cfg, metric)
        return cfg, metric, nones, r

    paths = case.explore(run)
    for p in paths:
        if p.outcome != "ret":
            case.rep["harness_errors"].append(f"scenario raised {p.value!r}")
            continue
        cfg, metric, nones, r = p.value
        rp = ("fit", (lambda c, n: lambda mdl: dict(fam=fam, cfg=c, nones=n, env=model_env(mdl, case.inputs)))(cfg, nones))
        case.twin(p)
        exp = expect_fit(fam, cfg)
        if exp is not None:
            case.prove(p, r["kind"] == "raise" and r["exc"] in exp, f"fit refuses with {'/'.join(sorted(exp))}", replay=rp)
            if "DataSufficiencyError" in exp:
                case.regime("fit refused for disqualified data")
            if cfg["role"] == "foreign":
                case.regime("foreign data class")
            if cfg["role"].startswith("sibling"):
                case.regime("data class of another model family")
            continue
        case.prove(p, r["kind"] == "return" and r["returned_self"] and r["fitted"], "fit returns the fitted model (no DataSufficiencyError without an unignored disqualification)", replay=rp)
        if r["kind"] != "return":
            continue
        if cfg["ndq"] > 0:
            case.regime("fit with override")
        poor = poor_fit_formula(fam, metric)
        added = r["model_dq"] - cfg["ndq"]
        case.prove(p, z3.And(z3.BoolVal(added in (0, 1)), poor == z3.BoolVal(added == 1)),
                   "poor-fit disqualification added exactly when the fit misses its threshold(s)", replay=rp)
        if added == 1:
            case.regime("poor fit adds a disqualification")
            want = "eemeter.model_fit_metrics" if fam == "hourly" else "eemeter.model_fit_metrics.cvrmse"
            case.prove(p, r["dq_names"][-1] == want and r["dq_names"][:-1] == [f"eemeter.sufficiency_criteria.dq{i}" for i in range(cfg["ndq"])],
                       "model disqualifications = inherited ones followed by the poor-fit entry", replay=rp)
        if nones:
            case.regime("metric undefined (None)")
        if len(case.rep["samples"]) < 2 and p.model is not None:
            case.sample(dict(cfg=cfg, undefined=nones, witness=model_env(p.model, case.inputs), outcome=r))


def run_predict(case, fam):
    case.inputs = []
    maxdq = 3 if case.tier == "thorough" else 2
    tzs = TZS + (["Europe/London"] if case.tier == "thorough" else [])

    def run():
        cfg = dict(fitted=F.choose("fitted", [True, False]), ndq=F.choose("ndq", list(range(maxdq + 1))), ignore=F.choose("ignore", ["False", "True", "np.False_", "0"]),
                   tz_model=F.choose("tz_model", tzs), tz_data=F.choose("tz_data", tzs), role=F.choose("role", ["reporting", "baseline"] + ROLES_FOREIGN))
        if fam == "hourly":
            cfg["missing_feature"] = F.choose("missing_feature", [False, True])
        return cfg, scenario_predict(fam, cfg)

    paths = case.explore(run)
    for p in paths:
        if p.outcome != "ret":
            case.rep["harness_errors"].append(f"scenario raised {p.value!r}")
            continue
        cfg, r = p.value
        rp = ("predict", (lambda c: lambda mdl: dict(fam=fam, cfg=c))(cfg))
        may_return, must_dme = expect_predict(fam, cfg)
        fid = "C04-billing-tz"
        if may_return:
            case.prove(p, r["kind"] == "return" and r.get("is_frame", False), "predict returns the prediction when every guard passes", replay=rp)
            if cfg["ndq"] > 0:
                case.regime("predict with override")
        else:
            case.prove(p, r["kind"] == "raise", "predict raises rather than predicts (unfitted / foreign type / other timezone / disqualified)", replay=rp)
            if must_dme:
                case.prove(p, r["kind"] == "raise" and r["exc"] == "DisqualifiedModelError", "DisqualifiedModelError when the model is disqualified and not overridden", replay=rp)
                case.regime("predict refused (DisqualifiedModelError)")
            elif r["kind"] == "raise":
                case.prove(p, not (r["exc"] == "DisqualifiedModelError" and not (cfg["ndq"] > 0 and not flag(cfg["ignore"]))),
                           "DisqualifiedModelError only for a disqualified, non-overridden model", replay=rp)
            case.regime("timezone mismatch", cfg["tz_model"] != cfg["tz_data"])
            case.regime("foreign data class", cfg["role"] == "foreign")
            case.regime("data class of another model family", cfg["role"].startswith("sibling"))
            case.regime("unfitted model", not cfg["fitted"])
        if len(case.rep["samples"]) < 2:
            case.sample(dict(cfg=cfg, outcome=r))


def run_persistfit(case, fam):
    """finite scenario space enumerated by solver forks: inherited dq count x poor fit x both override flags"""
    case.inputs = []

    def run():
        inp = dict(fam=fam, ndq=F.choose("ndq", [0, 1, 2]), ignore_fit=True, poor=F.choose("poor", [False, True]),
                   ignore_predict=F.choose("ignore_predict", [False, True]), prior=F.choose("prior", ["none", "good", "poor"]),
                   refused_after=F.choose("refused_after", [False, True]))
        return inp, replay_persistfit(inp)

    paths = case.explore(run)
    for p in paths:
        if p.outcome != "ret":
            case.rep["harness_errors"].append(f"persistfit scenario raised {p.value!r}")
            continue
        inp, (bad, det) = p.value
        case.prove(p, not bad, "a fitted model's gate verdict and disqualifications are the same after to_json/from_json (fit through the real _fit tail)",
                   replay=("persistfit", (lambda i: lambda mdl: i)(inp)))
    case.sample(dict(family=fam, scenarios=len(paths)))


def run_realfit(case):
    case.inputs = []

    def run():
        inp = dict(noise=F.choose("noise", [0.05, "spiky"]), short=F.choose("short", [False, True]))
        return inp, replay_realfit(inp)

    paths = case.explore(run)
    for p in paths:
        if p.outcome != "ret":
            case.rep["harness_errors"].append(f"real hourly fit scenario raised {p.value!r}")
            continue
        inp, (bad, det) = p.value
        label = "real hourly fit: refused exactly for a disqualified baseline; the fitted and the reloaded model are blocked exactly when disqualified (inherited or poor fit) and not overridden"
        if not case.ground(not bad, label):
            case.violation(label, "realfit", inp, det)
        case.regime("real hourly fit with a poor-fit disqualification", "poor fit: True" in det)
        case.regime("real hourly fit on a disqualified (short) baseline", "inherited: 0" not in det)
    case.sample(dict(entry="HourlyModel.fit/predict/to_json/from_json (real)", fits=len(paths)))


def run_persist(case, fam):
    """ground: stored disqualifications close the gate after to_json/from_json (daily, billing)"""
    n = 0
    for ndq in (0, 1, 2):
      for route in (("json", "dict") if fam == "hourly" else ("json",)):
        for ignore in (False, True):
            inp = dict(fam=fam, ndq=ndq, ignore=ignore, route=route)
            bad, det = replay_persist(inp)
            if not case.ground(not bad, "gate verdict and disqualification list survive to_json/from_json"):
                case.violation("gate verdict and disqualification list survive to_json/from_json", "persist", inp, det)
            n += 1
    case.rep["paths"] += n
    case.rep["nontrivial_paths"] += n
    case.sample(dict(family=fam, combinations="ndq in 0..2 x ignore in {False, True}"))
