"""C07 - observed and predicted usage are masked together (daily / billing predict output).

Executed symbolically: DailyModel._predict + _initialize_data + _meter_segment (+ _predict_submodel and the
de-jitted kernels) on a real pandas frame whose temperature/observed columns are `symreal`.
Solver-quantified: every cell value; every pattern of {value, NaN, +inf} temperature and {value, NaN} usage
(the state of each cell is a solver-decided fork), rows <= 3 (quick) / 4 (thorough)."""
from __future__ import annotations

import numpy as np
import pandas as pd
import z3

import opendsm.eemeter.models.daily.model as dm
from opendsm.eemeter.models.billing.model import BillingModel
from symv import engine as E
from symv.case import Case
from symv.proxies import SReal, lift, model_env, to_real
from symv.symarray import cells

from . import dailyframe as F
from . import dailyref as R

EXPLANATION = "C07: per-row masking of observed/predicted in DailyModel._predict for every NaN/inf pattern and every value."
BOUNDS = {"quick": dict(rows=3, layouts=["single", "wdwe"], temperature_states=["value", "NaN", "+inf"], observed_states=["value", "NaN", "absent column"]),
          "thorough": dict(rows=4, layouts=["single", "single-v", "wdwe", "season"], temperature_states=["value", "NaN", "+inf"], observed_states=["value", "NaN", "absent column"])}
STUBS = ["numba kernels de-jitted", "model built by DailyModel.from_dict from a concrete stored document (coefficients concrete, frame symbolic)"]
MODELS_USED = ["symreal ExtensionArray (element ops, isna, take, concat)", "symnp.isfinite on symreal"]
ASSUMPTIONS = ["a cell 'has a value' iff it is finite; -inf behaves like +inf (same np.isfinite test)",
               "index catalogue is enumerated (DST day, gap, unsorted); billing aggregation is C19"]
EXPECTED_REGIMES = ["temperature missing, usage present", "usage missing, temperature present", "both present", "non-finite temperature"]


def ENCODED():
    return [dm.DailyModel.predict, BillingModel.predict, dm.DailyModel._predict, dm.DailyModel._initialize_data, dm.DailyModel._meter_segment, dm.DailyModel._predict_submodel]


def _cfg(tier):
    if tier == "thorough":
        return 4, ["single", "single-v", "wdwe", "season"], ["pacific-dst", "gap", "unsorted"]
    return 3, ["single", "wdwe"], ["pacific-dst", "unsorted"]


def cases(tier, seed):
    n, layouts, idxs = _cfg(tier)
    out = []
    for lay in layouts:
        for ik in idxs:
            for obs in ("obs", "noobs"):
                out.append(f"{lay}/{ik}/{obs}/{n}")
    out.append("billing-agg/monthly/obs/3")
    out.append("billing-agg/bimonthly/obs/3")
    # the public predict() with every data-object type it accepts (the cases above drive _predict directly)
    out += ["public/daily-reporting/obs/3", "public/daily-baseline/obs/3", "public/billing-reporting/obs/3", "public/billing-baseline/obs/3"]
    return out


# ---------------------------------------------------------------- oracle (concrete, on a float result)

def check_frame(df_in, out, with_obs):
    """returns list of problems of a concrete predict() output"""
    pr = []
    out = out.loc[df_in.sort_index().index] if set(out.index) == set(df_in.index) else out
    if len(out) != len(df_in):
        return [f"row count {len(out)} != {len(df_in)}"]
    for ts in df_in.index:
        tin = df_in.loc[ts, "temperature"]
        p = out.loc[ts, "predicted"]
        hasp = bool(np.isfinite(p))
        if with_obs:
            oin = df_in.loc[ts, "observed"]
            o = out.loc[ts, "observed"]
            haso = bool(np.isfinite(o))
            if hasp != haso:
                pr.append(f"{ts}: predicted {'present' if hasp else 'missing'} but observed {'present' if haso else 'missing'} (temperature in={tin}, observed in={oin})")
            if not np.isfinite(tin) and haso:
                pr.append(f"{ts}: temperature missing but consumption not masked ({o})")
            if haso and not (o == oin):
                pr.append(f"{ts}: observed changed {oin} -> {o}")
            if not np.isfinite(oin) and hasp:
                pr.append(f"{ts}: consumption missing but predicted {p}")
        else:
            if hasp != bool(np.isfinite(tin)):
                pr.append(f"{ts}: predicted {'present' if hasp else 'missing'} but temperature {tin}")
    if with_obs and not pr:
        a = np.nansum(out["observed"].to_numpy(dtype=float)) - np.nansum(out["predicted"].to_numpy(dtype=float))
        rw = np.nansum((out["observed"].astype(float) - out["predicted"].astype(float)).to_numpy())
        if abs(a - rw) > 1e-6 * max(1.0, abs(a)):
            pr.append(f"column sums {a} != row-wise sum {rw}")
    return pr


def replay_predict(inp):
    idx = F.index_catalogue(inp["index"], inp["n"])
    df = F.float_frame(idx, inp["env"], inp["ts"], inp["os"])
    cls = BillingModel if inp.get("billing") else dm.DailyModel
    m = F.model(inp["layout"], cls, tz=str(idx.tz))
    out = m._predict(df.copy())
    pr = check_frame(df, out, inp["os"] is not None)
    return bool(pr), "; ".join(pr[:4])


REPLAY = {"predict": replay_predict}


def replay_agg(inp):
    from .c05 import _billing_data
    idx = pd.date_range("2021-01-30", periods=inp["n"], freq="D", tz="US/Pacific")
    df = F.float_frame(idx, inp["env"], inp["ts"], inp["os"])
    m = F.model("single", BillingModel, tz="US/Pacific")
    daily = m.predict(_billing_data(df), aggregation=None)
    agg = m.predict(_billing_data(df), aggregation=inp["agg"])
    both = np.isfinite(daily["observed"].to_numpy(dtype=float)) & np.isfinite(daily["predicted"].to_numpy(dtype=float))
    so, sp = float(np.nansum(agg["observed"].to_numpy(dtype=float))), float(np.nansum(agg["predicted"].to_numpy(dtype=float)))
    rw = float(np.sum((daily["observed"].to_numpy(dtype=float) - daily["predicted"].to_numpy(dtype=float))[both]))
    bad = abs((so - sp) - rw) > 1e-9 * max(1.0, abs(so) + abs(sp))
    uneven = [str(t.date()) for t, a, b in zip(agg.index, agg["observed"].to_numpy(dtype=float), agg["predicted"].to_numpy(dtype=float)) if np.isfinite(a) != np.isfinite(b)]
    if uneven:
        return True, f"aggregated periods {uneven} have only one of observed/predicted: {agg[['observed', 'predicted']].to_dict('list')}"
    return bad, f"aggregated sum(observed)-sum(predicted) = {so - sp}, row-wise savings over days that have both = {rw} (observed total {so})"


REPLAY["agg"] = replay_agg


def _data_shell(kind, df):
    """a data object of the real class (isinstance holds) handing out `df`; the data classes themselves are C08-C10"""
    from opendsm.eemeter.models.billing.data import BillingBaselineData, BillingReportingData
    from opendsm.eemeter.models.daily.data import DailyBaselineData, DailyReportingData
    cls = {"daily-reporting": DailyReportingData, "daily-baseline": DailyBaselineData,
           "billing-reporting": BillingReportingData, "billing-baseline": BillingBaselineData}[kind]

    class Shell(cls):
        def __init__(self):
            pass
    Shell.df = property(lambda self: df.copy())
    d = Shell()
    d._df = df
    d.tz = df.index.tz
    d.warnings, d.disqualification = [], []
    d.is_electricity_data = True
    return d


def _public_predict(kind, df):
    cls = BillingModel if kind.startswith("billing") else dm.DailyModel
    m = F.model("single", cls, tz=str(df.index.tz))
    return m.predict(_data_shell(kind, df))


def replay_public(inp):
    idx = F.index_catalogue("pacific-dst", inp["n"])
    df = F.float_frame(idx, inp["env"], inp["ts"], inp["os"])
    out = _public_predict(inp["kind"], df.copy())
    pr = check_frame(df, out, True)
    return bool(pr), "; ".join(pr[:4])


REPLAY["public"] = replay_public


def run_public(case, kind, n):
    import opendsm.eemeter.models.billing.model as bmod
    from symv.carriers import patched, symnp
    idx = F.index_catalogue("pacific-dst", n)
    case.inputs = [z3.Real(f"T{i}") for i in range(n)] + [z3.Real(f"o{i}") for i in range(n)]

    def run():
        df, ts, os_ = F.sym_frame(idx, True, t_states=("val", "nan", "inf"))
        snap = {c: cells(df[c]) for c in df.columns}
        return snap, ts, os_, _public_predict(kind, df)

    with R.symbolic_daily(), patched(bmod, np=symnp):
        paths = case.explore(run)
    for p in paths:
        if p.outcome != "ret":
            case.rep["harness_errors"].append(f"predict({kind}) raised {p.value!r}")
            continue
        snap, ts, os_, out = p.value
        rp = ("public", (lambda st: lambda mdl: dict(kind=kind, n=n, env=model_env(mdl, case.inputs), ts=st[0], os=st[1]))((ts, os_)))
        case.twin(p)
        ok = list(out.index) == list(idx.sort_values()) and "predicted" in out.columns and "observed" in out.columns
        case.prove(p, ok, "predict(): one row per input timestamp, with predicted and observed columns", replay=rp)
        if not ok:
            continue
        pred, obs = cells(out["predicted"]), cells(out["observed"])
        order = {t: i for i, t in enumerate(idx)}
        for j, t in enumerate(out.index):
            i = order[t]
            hasp, haso = F.finite(pred[j]), F.finite(obs[j])
            case.prove(p, hasp == haso, "predict(): predicted present <=> observed present (whatever data-object type was handed in)", replay=rp)
            case.prove(p, (not haso) if not F.finite(snap["temperature"][i]) else True, "predict(): missing temperature => consumption masked", replay=rp)
            case.prove(p, (not hasp) if not F.finite(snap["observed"][i]) else True, "predict(): missing consumption => no prediction", replay=rp)
            case.regime("temperature missing, usage present", ts[i] == "nan" and os_[i] == "val")
    case.sample(dict(entry=f"predict({kind})", rows=n, paths=len(paths)))


def run_agg(case, agg, n):
    """BillingModel.predict with aggregation: observed and predicted stay masked together in the period totals"""
    import opendsm.eemeter.models.billing.model as bmod
    from symv.carriers import patched, symnp
    from .c05 import _billing_data
    idx = pd.date_range("2021-01-30", periods=n, freq="D", tz="US/Pacific")
    case.inputs = [z3.Real(f"T{i}") for i in range(n)] + [z3.Real(f"o{i}") for i in range(n)]

    def run():
        m = F.model("single", BillingModel, tz="US/Pacific")
        df, ts, os_ = F.sym_frame(idx, True)
        daily = m.predict(_billing_data(df), aggregation=None)
        out = m.predict(_billing_data(df), aggregation=agg)
        return ts, os_, daily, out

    with R.symbolic_daily(), patched(bmod, np=symnp):
        paths = case.explore(run)
    for p in paths:
        if p.outcome != "ret":
            case.rep["harness_errors"].append(f"BillingModel.predict raised {p.value!r}")
            continue
        ts, os_, daily, out = p.value
        rp = ("agg", (lambda s: lambda mdl: dict(agg=agg, n=n, env=model_env(mdl, case.inputs), ts=s[0], os=s[1]))((ts, os_)))
        do, dp = cells(daily["observed"]), cells(daily["predicted"])
        rw = sum((to_real(lift(o)) - to_real(lift(q)) for o, q in zip(do, dp) if F.finite(o) and F.finite(q)), z3.RealVal(0))
        so = sum((to_real(lift(v)) for v in cells(out["observed"]) if F.finite(v)), z3.RealVal(0))
        sp = sum((to_real(lift(v)) for v in cells(out["predicted"]) if F.finite(v)), z3.RealVal(0))
        case.prove(p, so - sp == rw, "aggregated sum(observed) - sum(predicted) == row-wise savings over the days that have both", replay=rp)
        # every aggregated period, like every day: both an observed and a predicted total, or neither
        both = [F.finite(a) == F.finite(b) for a, b in zip(cells(out["observed"]), cells(out["predicted"]))]
        case.prove(p, all(both), "every aggregated period has both an observed and a predicted total, or neither", replay=rp)
        for i in range(n):
            case.regime("temperature missing, usage present", ts[i] == "nan" and os_[i] == "val")
            case.regime("usage missing, temperature present", ts[i] == "val" and os_[i] == "nan")
            case.regime("both present", ts[i] == "val" and os_[i] == "val")
    case.sample(dict(aggregation=agg, rows=n, paths=len(paths)))


def run_case(case: Case, name: str):
    lay, ik, obs, n = name.split("/")
    n = int(n)
    if lay == "billing-agg":
        return run_agg(case, ik, n)
    if lay == "public":
        return run_public(case, ik, n)
    with_obs = obs == "obs"
    idx = F.index_catalogue(ik, n)
    names = [f"T{i}" for i in range(n)] + [f"o{i}" for i in range(n)]
    case.inputs = [z3.Real(x) for x in names]

    def run():
        m = F.model(lay, tz=str(idx.tz))
        df, ts, os_ = F.sym_frame(idx, with_obs, t_states=("val", "nan", "inf"))
        snap = {c: cells(df[c]) for c in df.columns}
        out = m._predict(df)
        return snap, ts, os_, out

    with R.symbolic_daily():
        paths = case.explore(run)

    for p in paths:
        mk = lambda st: (lambda mdl: dict(layout=lay, index=ik, n=n, env=model_env(mdl, case.inputs), ts=st[0], os=st[1]))
        if p.outcome != "ret":
            case.rep["exc_outcomes"][type(p.value).__name__] = case.rep["exc_outcomes"].get(type(p.value).__name__, 0) + 1
            case.note(f"exception {p.value!r}")
            case.rep["harness_errors"].append(f"unexpected exception in _predict: {p.value!r}")
            continue
        snap, ts, os_, out = p.value
        rp = ("predict", mk((ts, os_)))
        case.twin(p)
        ok_struct = list(out.index) == list(idx.sort_values()) and "predicted" in out.columns
        case.prove(p, ok_struct, "one row per input timestamp, sorted", replay=rp)
        if not ok_struct:
            continue
        pos = {t: i for i, t in enumerate(idx)}
        pred = dict(zip(out.index, cells(out["predicted"])))
        obs_out = dict(zip(out.index, cells(out["observed"]))) if with_obs else None
        row_terms = []
        for t in idx:
            i = pos[t]
            tin = snap["temperature"][i]
            hasp = F.finite(pred[t])
            if with_obs:
                oin = snap["observed"][i]
                haso = F.finite(obs_out[t])
                case.prove(p, hasp == haso, "predicted present <=> observed present", replay=rp, exclude=[])
                case.prove(p, (not haso) if not F.finite(tin) else True, "missing temperature => consumption masked", replay=rp)
                case.prove(p, (not hasp) if not F.finite(oin) else True, "missing consumption => no prediction", replay=rp)
                if haso:
                    same = (obs_out[t] is oin) or (isinstance(oin, SReal) and isinstance(obs_out[t], SReal) and z3.eq(lift(oin), lift(obs_out[t])))
                    case.prove(p, same if isinstance(same, bool) else same, "observed value unchanged", replay=rp)
                if hasp and haso:
                    row_terms.append((obs_out[t], pred[t]))
                case.regime("temperature missing, usage present", ts[i] == "nan" and os_[i] == "val")
                case.regime("usage missing, temperature present", ts[i] == "val" and os_[i] == "nan")
                case.regime("both present", ts[i] == "val" and os_[i] == "val")
                case.regime("non-finite temperature", ts[i] == "inf")
            else:
                case.prove(p, hasp == F.finite(tin), "predicted present <=> temperature present (no usage supplied)", replay=rp)
        if with_obs:
            # column sums == row-wise sum (over the symbolic terms): sum of finite observed - sum of finite predicted
            so = sum((to_real(lift(v)) for v in obs_out.values() if F.finite(v)), z3.RealVal(0))
            sp = sum((to_real(lift(v)) for v in pred.values() if F.finite(v)), z3.RealVal(0))
            rw = sum((to_real(lift(o)) - to_real(lift(q)) for o, q in row_terms), z3.RealVal(0))
            case.prove(p, so - sp == rw, "sum(observed) - sum(predicted) == sum(row-wise savings)", replay=rp)
        # translation validation of the carriers on this path (every path in thorough, every 4th in quick)
        F.validate_frame(case, p, out, (lambda st: lambda env: F.model(lay, tz=str(idx.tz))._predict(F.float_frame(idx, env, st[0], st[1])))((ts, os_)),
                         ["predicted", "heating_load", "cooling_load"] + (["observed"] if with_obs else []), stride=1 if case.tier == "thorough" else 4)
        if len(case.rep["samples"]) < 2 and p.model is not None:
            case.sample(dict(temperature_states=ts, observed_states=os_, witness=model_env(p.model, case.inputs)))
