"""C12 - every fitted daily/billing sub-model is admissible and well formed, and the kept
coefficients describe the curve the optimiser scored.

The optimiser (NLopt) is a nondeterministic stub: it may return ANY vector inside its box.
Executed symbolically for every such vector: the objective's model function
(evaluate_hdd_tidd_cdd_smooth / _hdd_tidd_cdd / _c_hdd_tidd(_smooth) / _tidd), then
OptimizedResult._set_model_key/_refine_model (get_full_model_x, fix_full_model_x, reduce_model,
get_k, get_smooth_coeffs), ModelCoefficients.from_np_arrays, OptimizedResult.eval and
DailyModel._predict_submodel of the named coefficients."""
from __future__ import annotations

import contextlib

import numpy as np
import z3

import opendsm.eemeter.models.daily.base_models.c_hdd_tidd as chm
import opendsm.eemeter.models.daily.base_models.hdd_tidd_cdd as htc
import opendsm.eemeter.models.daily.base_models.tidd as tdm
import opendsm.eemeter.models.daily.optimize_results as orr
import opendsm.eemeter.models.daily.parameters as pm

from symv import engine as E
from symv.carriers import dejit, patched, rebuild, symarr, symnp
from symv.case import Case
from symv.claims import violated
from symv.proxies import SReal, lift, model_env, to_real
from symv.symarray import cells

from . import dailyref as R
from . import dailyframe as F2
from .dailyref import FIELDS, TC, Z

EXPLANATION = ("C12: nondeterministic optimiser outcome inside its box -> scored curve vs kept/evaluated curve vs "
               "curve of the named coefficients at a baseline temperature, plus admissibility of the stored coefficients "
               "(the inclusion that C11/C01's domain assumes).")
BOUNDS = {"quick": dict(raw_vector="any point of the optimiser box (unbounded reals)", evaluation_points=1,
                        T="T_min <= T <= T_max (baseline temperatures)"),
          "thorough": dict(raw_vector="any point of the optimiser box", evaluation_points=1, T="T_min <= T <= T_max")}
STUBS = ["NLopt/SciPy optimiser = nondeterministic stub returning any vector in its box",
         "OptimizedResult.__init__ bypassed (object.__new__ + fields): acf/np.std/unc_factor/get_T_bnds not encodable; f_unc = fresh non-negative symbol",
         "uncertainty case: acf -> [1, rho] with -1 < rho < 1 arbitrary, np.std -> arbitrary s >= 0, unc_factor(n) -> positive number for n > 1 and NaN otherwise (Student t with n-1 degrees of freedom)",
         "ModelCoefficients(...) -> model_construct twin"]
MODELS_USED = ["symnp.clip (ITE)", "EXP uninterpreted + axioms"]
ASSUMPTIONS = ["box contract: balance points in [T_min,T_max] (superset of initial [T_min,T_max] and final [T_min_seg,T_max_seg] boxes and of the pinned c_hdd end case), "
               "full-model slopes >= 0, single-slope sign free, smoothing >= 0, intercept in [lo,hi]",
               "T_min <= T_min_seg <= T_max_seg <= T_max, T_min < T_max (get_T_bnds order statistics)",
               "bounds cases: 10 ** OoM_numba(x, 'floor') is abstracted by its envelope (10 for x == 0, else some w with |x|/10 < w <= |x|)",
               "what NLopt actually returns, f_unc finiteness, T_*_seg being order statistics: outside the claim"]
EXPECTED_REGIMES = ["raw balance points crossed", "reduced to single-slope", "reduced to flat", "smoothing kept", "degenerate proposed bound widened", "effective degrees of freedom floored at 1"]

KINDS = {
    "hdd_tidd_cdd_smooth": ["hdd_bp", "hdd_beta", "hdd_k", "cdd_bp", "cdd_beta", "cdd_k", "intercept"],
    "hdd_tidd_cdd": ["hdd_bp", "hdd_beta", "cdd_bp", "cdd_beta", "intercept"],
    "c_hdd_tidd_smooth": ["c_hdd_bp", "c_hdd_beta", "c_hdd_k", "intercept"],
    "c_hdd_tidd": ["c_hdd_bp", "c_hdd_beta", "intercept"],
    "tidd": ["intercept"],
}
TYPE2SHAPE = {v.value: k for k, v in R.SHAPES.items()}


def ENCODED():
    import opendsm.eemeter.models.daily.model as dm
    from opendsm.eemeter.models.daily.base_models import full_model as fm
    from opendsm.eemeter.models.daily.utilities import base_model as bm
    return [orr.OptimizedResult._set_model_key, orr.OptimizedResult._refine_model, orr.OptimizedResult.eval,
            orr.reduce_model, orr.get_k, fm.get_full_model_x, fm.fix_full_model_x, fm.full_model, bm.get_smooth_coeffs,
            pm.ModelCoefficients.from_np_arrays, htc.evaluate_hdd_tidd_cdd_smooth, htc._hdd_tidd_cdd, htc._hdd_tidd_cdd_smooth,
            chm._c_hdd_tidd, chm._c_hdd_tidd_smooth, chm.set_full_model_coeffs, chm.set_full_model_coeffs_smooth,
            tdm._tidd, tdm.set_full_model_coeffs, dm.DailyModel._predict_submodel]


def splits(kind, V):
    """top-level case split (exhaustive inside the box; exhaustiveness is itself an obligation) so that the
    exploration of the big kinds spreads over the cores"""
    sp = []
    if kind.startswith("hdd_tidd_cdd"):
        sp.append([("hb=0", V["x_hdd_beta"] == 0), ("hb>0", V["x_hdd_beta"] > 0)])
        sp.append([("cb=0", V["x_cdd_beta"] == 0), ("cb>0", V["x_cdd_beta"] > 0)])
        sp.append([("ordered", V["x_hdd_bp"] < V["x_cdd_bp"]), ("equal", V["x_hdd_bp"] == V["x_cdd_bp"]), ("crossed", V["x_hdd_bp"] > V["x_cdd_bp"])])
    if kind == "hdd_tidd_cdd_smooth":
        sp.append([("ksum<=1", V["x_hdd_k"] + V["x_cdd_k"] <= 1), ("ksum>1", V["x_hdd_k"] + V["x_cdd_k"] > 1)])
    return sp


def split_names(kind):
    import itertools
    sp = splits(kind, raw_vars(kind))
    if not sp:
        return [""]
    return ["+".join(n for n, _ in combo) for combo in itertools.product(*sp)]


def split_assumptions(kind, V, name):
    if not name:
        return []
    want = name.split("+")
    out = []
    for alts, w in zip(splits(kind, V), want):
        out.append(dict(alts)[w])
    return out


def cases(tier, seed):
    out = []
    for k in KINDS:
        for sn in split_names(k):
            out.append(f"{k}/curve/{sn}")
    out += ["hdd_tidd_cdd_smooth/bounds/x", "hdd_tidd_cdd/bounds/x", "tidd/uncertainty/x", "tidd/limits/5", "tidd/limits/6", "refit/segments/x", "hdd_tidd_cdd_smooth/rounding/x"]
    return out


def raw_vars(kind):
    names = [f"x_{n}" for n in KINDS[kind]] + TC + ["f_unc", "lo", "hi", "T0"]
    return {n: Z(n) for n in names}


def box(kind, V):
    c = [V["T_min"] <= V["T_min_seg"], V["T_min_seg"] <= V["T_max_seg"], V["T_max_seg"] <= V["T_max"], V["T_min"] < V["T_max"],
         V["f_unc"] >= 0, V["lo"] <= V["x_intercept"], V["x_intercept"] <= V["hi"],
         V["T0"] >= V["T_min"], V["T0"] <= V["T_max"]]
    for n in KINDS[kind]:
        v = V[f"x_{n}"]
        if n.endswith("_bp"):
            c += [v >= V["T_min"], v <= V["T_max"]]
        elif n in ("hdd_beta", "cdd_beta"):
            c += [v >= 0]
        elif n.endswith("_k"):
            c += [v >= 0]
    return c


_tw = None


def _twin():
    Real = pm.ModelCoefficients

    class Twin:
        def __new__(cls, **kw):
            return Real.model_construct(**kw)
    return Twin


@contextlib.contextmanager
def symbolic_fit():
    fmx = R._full_model
    gsc = R._get_smooth_coeffs
    with R.symbolic_daily(), \
         patched(htc, get_smooth_coeffs=gsc, _hdd_tidd_cdd_smooth=dejit(htc._hdd_tidd_cdd_smooth), _hdd_tidd_cdd=dejit(htc._hdd_tidd_cdd), full_model=fmx, np=symnp), \
         patched(chm, set_full_model_coeffs=dejit(chm.set_full_model_coeffs), set_full_model_coeffs_smooth=dejit(chm.set_full_model_coeffs_smooth), full_model=fmx, np=symnp), \
         patched(tdm, set_full_model_coeffs=dejit(tdm.set_full_model_coeffs), full_model=fmx, np=symnp), \
         patched(pm, ModelCoefficients=_twin()):
        yield


def model_fcn(kind):
    return {"hdd_tidd_cdd_smooth": htc.evaluate_hdd_tidd_cdd_smooth, "hdd_tidd_cdd": htc._hdd_tidd_cdd,
            "c_hdd_tidd_smooth": chm._c_hdd_tidd_smooth, "c_hdd_tidd": chm._c_hdd_tidd, "tidd": tdm._tidd}[kind]


def run_fit(kind, vals, T, real=False):
    """shared by the symbolic run (proxies, inside symbolic_fit) and the replay (floats, unpatched code)."""
    import opendsm.eemeter.models.daily.model as dm
    ids = list(KINDS[kind])
    X = [vals[f"x_{n}"] for n in ids]
    Tarr = np.array([float(T)]) if real else symarr([T])
    bnds = np.array([float(vals["T_min"]), float(vals["T_max"])]) if real else symarr([vals["T_min"], vals["T_max"]])
    # (1) what the objective scored (obj_fcn: model_fcn_full(*X, T_fit_bnds, T))
    scored = model_fcn(kind)(*X, bnds, Tarr)
    # (2) what OptimizedResult keeps
    res = object.__new__(orr.OptimizedResult)
    res.coef_id = list(ids)
    res.x = np.array([float(x) for x in X]) if real else symarr(X)
    res.T_min, res.T_max, res.T_min_seg, res.T_max_seg = (vals[k] for k in TC)
    res.f_unc = vals["f_unc"]
    res._set_model_key()
    res._refine_model()
    res.named_coeffs = pm.ModelCoefficients.from_np_arrays(res.x, res.coef_id) if real else \
        orr.ModelCoefficients.from_np_arrays.__func__(orr.ModelCoefficients, res.x, res.coef_id)
    res.x = np.array(res.x) if real else symarr(list(res.x))
    kept = res.eval(Tarr)[0]
    # (3) what a stored model predicts
    tc = {k: vals[k] for k in TC}
    if real:
        from opendsm.eemeter.models.daily.parameters import DailySubmodelParameters
        sub = DailySubmodelParameters(coefficients=res.named_coeffs, temperature_constraints={k: float(v) for k, v in tc.items()}, f_unc=float(vals["f_unc"]))
        m = dm.DailyModel()
    else:
        sub = R.DailySubmodelParameters.model_construct(coefficients=res.named_coeffs, temperature_constraints=tc, f_unc=vals["f_unc"])
        m = object.__new__(dm.DailyModel)
    pred = m._predict_submodel(sub, Tarr)
    nc = res.named_coeffs
    fields = {f: getattr(nc, f) for f in ["intercept", "hdd_bp", "hdd_beta", "hdd_k", "cdd_bp", "cdd_beta", "cdd_k"]}
    return dict(scored=scored[0], kept=kept[0], predicted=pred[0][0], heating=pred[2][0], cooling=pred[3][0],
                model_type=nc.model_type.value, fields=fields, model_key=res.model_key, model_name=res.model_name,
                coef_id=list(res.coef_id))


# ---------------------------------------------------------------- claims

def admissible(kind, V, out_type, F):
    """stored coefficients lie in the admissible domain of their declared shape (dailyref.domain)"""
    shape = TYPE2SHAPE[out_type]
    W = dict(V)
    for f in FIELDS[shape]:
        W[f] = F[f]
    W["intercept"] = F["intercept"]
    dom = R.domain(shape, W)
    return z3.And(*dom, F["intercept"] >= V["lo"], F["intercept"] <= V["hi"])


def claims(kind, V, O):
    """O: scored, kept, predicted, heating, cooling (z3 terms), model_type (str), F (dict of z3 terms / None)"""
    F = O["F"]
    out = {
        "kept coefficients reproduce the scored curve (eval(T) == scored)": O["kept"] == O["scored"],
        "stored model predicts the scored curve (_predict_submodel(named) == scored)": O["predicted"] == O["scored"],
        "stored coefficients admissible for their declared shape": admissible(kind, V, O["model_type"], F),
        "no negative heating or cooling load on baseline temperatures": z3.And(O["heating"] >= 0, O["cooling"] >= 0),
    }
    return out


def crossed(kind, V):
    if "x_hdd_bp" in V and "x_cdd_bp" in V:
        return V["x_hdd_bp"] > V["x_cdd_bp"]
    return z3.BoolVal(False)


def region_H(kind, V):
    """known finding C12-H (DESIGN 2.11 d): the scored curve differs from the kept one
      (1) when the raw balance points are crossed (smoothing is applied before the ordering swap on the
          scoring path, after it on the read-back path),
      (2) when a raw balance point lies outside the segment limits (reduce_model / get_full_model_x clamp it),
      (3) smoothed full model with a raw balance point on the end of the fitted range (fix_full_model_x drops
          that slope on read-back while the scoring path has already shifted the balance point inwards),
      (4) smoothed full model where the side with zero slope has a non-zero smoothing fraction: the scoring path lets
          it take part in the normalisation / the 1%-threshold of get_smooth_coeffs, the read-back path zeroes it first."""
    import os
    use = os.environ.get("C12_REGION_PARTS", "1234")
    parts = []
    if "1" in use and kind == "hdd_tidd_cdd_smooth":
        # the mechanism needs smoothing: for the unsmoothed full model the ordering swap commutes with everything else
        parts.append(crossed(kind, V))
    if "2" in use:
        for n in ("x_hdd_bp", "x_cdd_bp", "x_c_hdd_bp"):
            if n in V:
                parts.append(z3.Or(V[n] > V["T_max_seg"], V[n] < V["T_min_seg"]))
    if "3" in use and kind == "hdd_tidd_cdd_smooth":
        parts.append(z3.Or(V["x_cdd_bp"] >= V["T_max"], V["x_hdd_bp"] <= V["T_min"]))
    if "4" in use and kind == "hdd_tidd_cdd_smooth":
        parts.append(z3.Or(z3.And(V["x_hdd_beta"] == 0, V["x_hdd_k"] > 0), z3.And(V["x_cdd_beta"] == 0, V["x_cdd_k"] > 0)))
    return z3.Or(*parts) if parts else z3.BoolVal(False)


def _pack(kind, V, r):
    F = {}
    for f, v in r["fields"].items():
        F[f] = None if v is None else to_real(lift(v))
    g = lambda x: to_real(lift(x))
    return dict(scored=g(r["scored"]), kept=g(r["kept"]), predicted=g(r["predicted"]), heating=g(r["heating"]),
                cooling=g(r["cooling"]), model_type=r["model_type"], F=F)


def replay_fit(inp):
    kind, label = inp["kind"], inp["label"]
    vals = {k: float(v) for k, v in inp["vals"].items()}
    r = run_fit(kind, vals, vals["T0"], real=True)
    V = raw_vars(kind)
    env = dict(vals)
    O = dict(model_type=r["model_type"], F={})
    for k in ("scored", "kept", "predicted", "heating", "cooling"):
        O[k] = Z(f"out_{k}")
        env[f"out_{k}"] = float(r[k])
    for f, v in r["fields"].items():
        if v is None:
            O["F"][f] = None
        else:
            O["F"][f] = Z(f"out_F_{f}")
            env[f"out_F_{f}"] = float(v)
    if label == "structure":
        ok, why = structure_ok(r)
        return (not ok), f"{why}; {r}"
    try:
        bad = violated(claims(kind, V, O)[label], env, rel=1e-9, abs_=1e-9)
    except KeyError as ex:  # a declared field is missing
        return True, f"declared shape lacks field {ex}: {r}"
    return bad, f"real run: { {k: r[k] for k in ('scored','kept','predicted','heating','cooling','model_type','fields')} } at {vals}"


REPLAY = {"fit": replay_fit}


def structure_ok(r):
    """ground, per path: declared model type <-> set of non-None coefficients; key/name consistent"""
    shape = TYPE2SHAPE.get(r["model_type"])
    if shape is None:
        return False, f"unknown model type {r['model_type']}"
    present = sorted(f for f, v in r["fields"].items() if v is not None and f != "intercept")
    if present != sorted(FIELDS[shape]):
        return False, f"model_type {shape} but coefficients present {present}"
    if r["fields"]["intercept"] is None:
        return False, "no intercept"
    key = {"hdd_tidd_smooth": "c_hdd_tidd_smooth", "tidd_cdd_smooth": "c_hdd_tidd_smooth", "hdd_tidd": "c_hdd_tidd", "tidd_cdd": "c_hdd_tidd"}.get(shape, shape)
    if r["model_key"] != key:
        return False, f"model_key {r['model_key']} for type {shape}"
    name = {"tidd_cdd_smooth": "cdd_tidd_smooth", "tidd_cdd": "cdd_tidd"}.get(shape, shape)
    if r["model_name"] != name:
        return False, f"model_name {r['model_name']} for type {shape}"
    if r["coef_id"] != KINDS[key]:
        return False, f"coef_id {r['coef_id']}"
    return True, ""


# ---------------------------------------------------------------- the optimiser box the assumptions rely on

def bounds_rows(smooth):
    return (7, [1, 2, 4, 5]) if smooth else (5, [1, 3])


def replay_bounds(inp):
    smooth = inp["smooth"]
    n, idxs = bounds_rows(smooth)
    env = inp["env"]
    r = inp["row"]
    new = np.array([[float(env.get(f"n{i}lo", 0.0)), float(env.get(f"n{i}hi", 0.0))] if i == r else [0.5, 2.0] for i in range(n)])
    bnds = np.array([[float(env.get(f"b{i}lo", 0.0)), float(env.get(f"b{i}hi", 1.0))] if i == r else [0.0, 100.0] for i in range(n)])
    out = htc._hdd_tidd_cdd_smooth_update_bnds(new.copy(), bnds.copy(), smooth)
    bad = [i for i in idxs if out[i][0] < 0]
    return bool(bad), f"updated optimiser bounds {out.tolist()} from {new.tolist()}: slope/smoothing rows {[i for i in idxs if out[i][0] < 0]} admit negative values"


def run_bounds(case, smooth):
    """_hdd_tidd_cdd_smooth_update_bnds + fix_identical_bnds for arbitrary proposed bounds: the box handed to the final
    optimiser never admits a negative slope or smoothing parameter (the 'full-model slopes >= 0, smoothing >= 0' part of
    the box contract assumed by the curve cases)"""
    import opendsm.eemeter.models.daily.utilities.base_model as bm
    n, idxs = bounds_rows(smooth)
    names = [f"{a}{i}{b}" for a in "nb" for i in range(n) for b in ("lo", "hi")]
    case.inputs = [z3.Real(x) for x in names] + [z3.Real(f"w{i}") for i in range(n)]
    counter = [0]

    class _Pow:
        """10 ** OoM_numba(x, 'floor'): 10 for x == 0, else the power of ten w with |x|/10 < w <= |x| (which power is left open)"""

        def __init__(self, x):
            self.x = x

        def __rpow__(self, base):
            w = z3.Real(f"w{counter[0] % n}")
            counter[0] += 1
            xs = [lift(v) for v in np.array(self.x, dtype=object).reshape(-1)]
            x0 = to_real(xs[0]) if not isinstance(xs[0], (int, float)) else z3.RealVal(str(float(xs[0])))
            ax = z3.If(x0 >= 0, x0, -x0)
            E.cur().assume(z3.And(w > 0, z3.Or(z3.And(x0 == 0, w == 10), z3.And(x0 != 0, w <= ax, 10 * w > ax))))
            return SReal(w)

    def run():
        # the function treats the rows independently (sort, widening and clamp are per row): one slope/smoothing row is
        # symbolic at a time (solver-chosen), the other proposed rows are ordinary concrete bounds
        counter[0] = 0
        r = F.choose("row", idxs)
        def grid(rows):  # a genuine (n, 2) object array
            from symv.carriers import SymND
            a = np.empty((n, 2), dtype=object)
            for i, (lo, hi) in enumerate(rows):
                a[i, 0], a[i, 1] = lo, hi
            return a.view(SymND)
        new = grid([(SReal(z3.Real(f"n{i}lo")), SReal(z3.Real(f"n{i}hi"))) if i == r else (0.5, 2.0) for i in range(n)])
        bnds = grid([(SReal(z3.Real(f"b{i}lo")), SReal(z3.Real(f"b{i}hi"))) if i == r else (0.0, 100.0) for i in range(n)])
        return r, htc._hdd_tidd_cdd_smooth_update_bnds(new, bnds, smooth)

    from . import dailyframe as F
    fib = rebuild(bm.fix_identical_bnds, np=symnp, OoM_numba=lambda x, method="floor": _Pow(x))  # numba dispatcher -> same code object, python globals
    with patched(htc, np=symnp, fix_identical_bnds=fib):
        paths = case.explore(run)
    for p in paths:
        if p.outcome != "ret":
            case.rep["harness_errors"].append(f"update_bnds raised {p.value!r}")
            continue
        r, out = p.value
        rp = ("bounds", (lambda rr: lambda mdl: dict(smooth=smooth, row=rr, env=model_env(mdl, case.inputs)))(r))
        case.twin(p)
        case.prove(p, z3.And(*[to_real(lift(out[i][0])) >= 0 for i in idxs]),
                   "the updated optimiser box never admits a negative slope or smoothing parameter", replay=rp)
        case.regime("degenerate proposed bound widened", any("w" in str(lift(out[i][0])) for i in range(n) if isinstance(out[i][0], SReal)))
    case.sample(dict(function="_hdd_tidd_cdd_smooth_update_bnds", smooth=smooth, paths=len(paths)))


REPLAY["bounds"] = replay_bounds


# ---------------------------------------------------------------- stored uncertainty is a number

def _unc_object(N, k, resid):
    import types as _t
    o = object.__new__(orr.OptimizedResult)
    o.N, o.num_coeffs, o.resid = N, k, resid
    o.settings = _t.SimpleNamespace(uncertainty_alpha=0.1)
    return o


def replay_unc(inp):
    """real _prediction_uncertainty (real np.std, unc_factor, t quantile); only the lag-1 autocorrelation of the
    residuals is injected from the witness"""
    env = inp["env"]
    N, k, rho = int(env["N"]), int(env["k"]), (float("nan") if inp.get("rho_nan") else float(env["rho"]))
    resid = np.resize(np.array([1.0, -1.0, 0.5, -0.5]), N) * (0.0 if inp.get("rho_nan") else float(env.get("s", 1.0) or 1.0))
    o = _unc_object(N, k, resid)
    with patched(orr, acf=lambda *a, **kw: np.array([1.0, rho])):
        o._prediction_uncertainty()
    bad = not (np.isfinite(o.f_unc) and o.f_unc >= 0)
    return bad, f"f_unc = {o.f_unc} for N={N}, {k} coefficients, lag-1 autocorrelation {rho} (effective degrees of freedom {o.DoF})"


def run_unc(case):
    """OptimizedResult._prediction_uncertainty for every sample size, coefficient count and residual autocorrelation:
    the t quantile is always asked for a sample with at least one degree of freedom, so the stored f_unc is a finite
    non-negative number"""
    from symv.proxies import SInt
    case.inputs = [z3.Int("N"), z3.Int("k"), z3.Real("rho"), z3.Real("s"), z3.Real("u")]
    asked = []

    def unc(n, interval="PI", alpha=0.1):
        asked.append(n)
        eng = E.cur()
        # Student t with n - 1 degrees of freedom: defined (finite, positive) exactly for n > 1
        if eng.branch(to_real(lift(n)) > 1) if isinstance(n, (SReal, SInt)) else n > 1:
            eng.assume(z3.Real("u") > 0)
            return SReal(z3.Real("u"))
        return float("nan")

    def run():
        eng = E.cur()
        del asked[:]
        N, k, rho, sd = z3.Int("N"), z3.Int("k"), z3.Real("rho"), z3.Real("s")
        for c in (N >= 3, k >= 1, k <= 7, rho > -1, rho < 1, sd >= 0):
            eng.assume(c)
        o = _unc_object(SInt(N), SInt(k), None)
        o._prediction_uncertainty()
        return o.f_unc, o.DoF, list(asked)

    class _NP:  # np.std(resid) -> the residual spread, an arbitrary non-negative number
        def __getattr__(self, name):
            return getattr(symnp, name)

        def std(self, x, *a, **kw):
            return SReal(z3.Real("s"))

    def _acf(*a, **kw):
        # lag-1 autocorrelation of the residuals: any value in (-1, 1), or undefined (NaN) when they have no spread
        if F2.choose("rho_state", ["val", "nan"]) == "nan":
            E.cur().path_notes["rho"] = "nan"
            return [1.0, np.float64("nan")]
        return [1.0, SReal(z3.Real("rho"))]

    with patched(orr, acf=_acf, unc_factor=unc, np=_NP()):
        paths = case.explore(run)
    for p in paths:
        rp = ("unc", (lambda nanrho: lambda mdl: dict(rho_nan=nanrho, env=model_env(mdl, case.inputs)))(p.notes.get("rho") == "nan"))
        if p.outcome != "ret":
            case.rep["harness_errors"].append(f"_prediction_uncertainty raised {p.value!r}")
            continue
        f_unc, dof, asked_n = p.value
        case.twin(p)
        ok = isinstance(f_unc, SReal) or (isinstance(f_unc, (int, float)) and f_unc == f_unc)
        case.prove(p, bool(ok), "the stored uncertainty factor is a number (t quantile asked for a sample with at least one degree of freedom)", replay=rp)
        if isinstance(f_unc, SReal):
            case.prove(p, to_real(lift(f_unc)) >= 0, "the stored uncertainty factor is non-negative", replay=rp)
        case.regime("effective degrees of freedom floored at 1", not isinstance(dof, (SReal, SInt)))
        case.regime("residual autocorrelation undefined", p.notes.get("rho") == "nan")
    case.sample(dict(function="OptimizedResult._prediction_uncertainty", paths=len(paths)))


REPLAY["unc"] = replay_unc


# ----------------------------------------------------------------- recorded temperature limits

def _limits_result(T, seg, intercept, real):
    """the real OptimizedResult.__init__ on a flat (tidd) outcome; only the uncertainty step (acf / scipy) is a stub"""
    import types as _t
    import opendsm.eemeter.models.daily.utilities.base_model as bm
    n = len(T)
    settings = _t.SimpleNamespace(segment_minimum_count=seg, uncertainty_alpha=0.1)
    x = np.array([float(intercept)]) if real else symarr([intercept])
    model = np.full(n, float(intercept)) if real else symarr([intercept] * n)
    resid = np.zeros(n)
    def _pu(self):
        self.DoF, self.f_unc = 1, 0.0
    with patched(orr.OptimizedResult, _prediction_uncertainty=_pu):
        if real:
            return orr.OptimizedResult(x, [[0.0, 1.0]], ["intercept"], 2.0, 1.0, T, model, np.ones(n), resid, None, 0.0, 1.0, True, "ok", 1, 0.0, settings)
        with symbolic_fit(), patched(bm, np=symnp), patched(orr, np=symnp):
            return orr.OptimizedResult(x, [[0.0, 1.0]], ["intercept"], 2.0, 1.0, T, model, np.ones(n), resid, None, 0.0, 1.0, True, "ok", 1, 0.0, settings)


def _rank_claim(v, Ts, k):
    """v is the element of rank k (0-based) of the multiset Ts"""
    lt = sum((z3.If(t < v, 1, 0) for t in Ts), z3.IntVal(0))
    le = sum((z3.If(t <= v, 1, 0) for t in Ts), z3.IntVal(0))
    return z3.And(z3.Or(*[v == t for t in Ts]), lt <= k, le >= k + 1)


def replay_limits(inp):
    env, seg, n = inp["env"], inp["seg"], inp["n"]
    T = np.array([float(env[f"t{i}"]) for i in range(n)])
    res = _limits_result(T, seg, float(env["c"]), True)
    s = np.sort(T)
    want = dict(T_min=s[0], T_max=s[-1], T_min_seg=s[seg], T_max_seg=s[n - seg])
    got = {k: float(getattr(res, k)) for k in want}
    return got != {k: float(v) for k, v in want.items()}, f"recorded limits {got}, the fitted days give {want} (temperatures {T.tolist()}, segment_minimum_count={seg})"


REPLAY["limits"] = replay_limits


def run_limits(case, n):
    """the temperature limits an OptimizedResult records are order statistics of the days it was fitted on:
    T_min/T_max the extremes, T_min_seg/T_max_seg the values segment_minimum_count days in from each end"""
    from . import dailyframe as F
    Ts = [Z(f"t{i}") for i in range(n)]
    case.inputs = Ts + [Z("c")]

    def run():
        seg = F.choose("seg", [1, 2] if n < 6 else [1, 2, 3])
        res = _limits_result(symarr([SReal(t) for t in Ts]), seg, SReal(Z("c")), False)
        return seg, {k: getattr(res, k) for k in TC}, res.N, res.obs

    paths = case.explore(run)
    for p in paths:
        if p.outcome != "ret":
            case.rep["harness_errors"].append(f"OptimizedResult.__init__ raised {p.value!r}")
            continue
        seg, got, N, obs = p.value
        rp = ("limits", (lambda sg: lambda mdl: dict(seg=sg, n=n, env=model_env(mdl, case.inputs)))(seg))
        case.twin(p)
        g = {k: to_real(lift(v)) for k, v in got.items()}
        case.prove(p, z3.And(_rank_claim(g["T_min"], Ts, 0), _rank_claim(g["T_max"], Ts, n - 1)), "recorded T_min/T_max are the coldest and hottest fitted day", replay=rp)
        case.prove(p, z3.And(_rank_claim(g["T_min_seg"], Ts, seg), _rank_claim(g["T_max_seg"], Ts, n - seg)),
                   "recorded segment limits are the temperatures segment_minimum_count days in from each end of the fitted days", replay=rp)
        case.prove(p, z3.BoolVal(int(N) == n), "recorded N is the number of fitted days", replay=rp)
        case.regime("segment limits taken two or more days in", seg >= 2)
    case.sample(dict(function="OptimizedResult.__init__ / get_T_bnds", days=n, paths=len(paths)))


# ----------------------------------------------------------------- a second fit of one model object uses the second baseline's days

SEG_N = 4


def _segments_run(layout, temps, usage):
    """the real DailyModel._fit (data preparation, component list, both fitting passes' segment selection) twice on ONE model
    object; the optimiser entry points are recorders.  temps/usage: two lists (first and second baseline).
    Returns what each pass of the SECOND fit received, per component: list of (index, temperature cells)."""
    import types as _t
    import pandas as pd
    import opendsm.eemeter.models.daily.model as dm
    seen = []

    def rec(kind):
        def f(meter_segment, *a, **k):
            seen.append((kind, list(meter_segment.index), list(cells(meter_segment["temperature"])) if hasattr(meter_segment["temperature"], "array") else list(meter_segment["temperature"])))
            T = meter_segment["temperature"]
            return _t.SimpleNamespace(wSSE=0.0, N=len(meter_segment), resid=np.zeros(len(meter_segment)), obs=np.ones(len(meter_segment)), model_name="tidd",
                                      T_min=0.0, T_max=1.0, T_min_seg=0.0, T_max_seg=1.0, f_unc=0.0, named_coeffs=pm.ModelCoefficients(model_type="tidd", intercept=1.0), settings=None)
        return f
    m = dm.DailyModel(model="legacy") if layout == "legacy" else dm.DailyModel()
    m._combinations = lambda: ["fw-su_sh_wi", "wd-su_sh_wi__we-su_sh_wi"]
    m._best_combination = lambda print_out=False: "wd-su_sh_wi__we-su_sh_wi"
    m._get_error_metrics = lambda combo: (0.1, 0.1, 0.1, 0.1, 0.1)
    m._create_params_from_fit_model = lambda: None
    starts = ("2021-01-04", "2021-07-05")
    with patched(dm, fit_initial_models_from_full_model=rec("initial"), fit_final_model=rec("final")):
        for k in (0, 1):
            idx = pd.date_range(starts[k], periods=SEG_N, freq="D", tz="US/Pacific") .append(pd.date_range(pd.Timestamp(starts[k]) + pd.Timedelta(days=5), periods=2, freq="D", tz="US/Pacific"))
            df = pd.DataFrame({"temperature": temps[k], "observed": usage[k]}, index=idx)
            del seen[:]
            m._fit(df)
    return list(seen), idx


def replay_segments(inp):
    env = inp["env"]
    n = SEG_N + 2
    temps = [np.array([float(env.get(f"a{i}", 10.0 + i)) for i in range(n)]), np.array([float(env.get(f"b{i}", 60.0 + i)) for i in range(n)])]
    usage = [np.ones(n), np.ones(n) * 2]
    seen, idx = _segments_run(inp["layout"], temps, usage)
    pr = _segments_problems(seen, idx, [float(x) for x in temps[1]], lambda a, b: float(a) == float(b))
    return bool(pr), "; ".join(pr[:3])


def _segments_problems(seen, idx, second_T, same):
    pr = []
    want = {t: second_T[i] for i, t in enumerate(idx)}
    for kind in ("initial", "final"):
        rows = [(t, v) for k, ix, vals in seen if k == kind for t, v in zip(ix, vals)]
        comps = [ix for k, ix, vals in seen if k == kind]
        if kind == "final" and not comps:
            continue  # profiles without a final refit keep the first-pass result
        got = sorted(t for t, _ in rows)
        need = sorted(list(idx) * (2 if kind == "initial" else 1))  # first pass: the unsplit model and the weekday/weekend pair
        if got != need:
            pr.append(f"{kind} fitting pass of the second fit received days {[str(t.date()) for t in got][:8]}, the second baseline has {[str(t.date()) for t in idx]}")
            continue
        for t, v in rows:
            if not same(v, want[t]):
                pr.append(f"{kind} fitting pass of the second fit received temperature {v} for {t.date()}, the second baseline has {want[t]}")
                break
    return pr


REPLAY["segments"] = replay_segments


def run_segments(case):
    from . import dailyframe as F
    from symv.symarray import SymArray
    n = SEG_N + 2
    case.inputs = [Z(f"a{i}") for i in range(n)] + [Z(f"b{i}") for i in range(n)]

    def run():
        layout = F.choose("layout", ["current", "legacy"])
        temps = [SymArray([SReal(Z(f"a{i}")) for i in range(n)]), SymArray([SReal(Z(f"b{i}")) for i in range(n)])]
        usage = [np.ones(n), np.ones(n) * 2]
        seen, idx = _segments_run(layout, temps, usage)
        return layout, seen, idx

    import opendsm.eemeter.models.daily.model as dm
    with patched(dm, np=symnp):
        paths = case.explore(run)
    for p in paths:
        if p.outcome != "ret":
            case.rep["harness_errors"].append(f"second fit raised {p.value!r}")
            continue
        layout, seen, idx = p.value
        rp = ("segments", (lambda l: lambda mdl: dict(layout=l, env=model_env(mdl, case.inputs)))(layout))
        pr = _segments_problems(seen, idx, [Z(f"b{i}") for i in range(n)], lambda a, b: isinstance(a, SReal) and z3.eq(z3.simplify(lift(a)), b))
        case.prove(p, not pr, "a second fit of one model object hands each fitting pass exactly the days (and temperatures) of the second baseline", replay=rp)
        case.regime("second fit of one model object")
    case.sample(dict(entry="DailyModel._fit twice on one object", paths=len(paths)))


def run_case(case: Case, name: str):
    kind, mode, split = name.split("/")
    if kind == "refit":
        return run_segments(case)
    if mode == "rounding":
        # the scored curve (smoothing applied, then full_model orders the sides) and the kept one agree only while the shifted
        # balance points keep their order in float64: the rounding-error-model lemma of C11 on the real get_smooth_coeffs
        from . import c11
        REPLAY["rounding"] = c11.replay_rounding
        return c11.run_rounding(case)
    if mode == "bounds":
        return run_bounds(case, kind.endswith("smooth"))
    if mode == "uncertainty":
        return run_unc(case)
    if mode == "limits":
        return run_limits(case, int(split))
    V = raw_vars(kind)
    case.inputs = list(V.values())
    sa = split_assumptions(kind, V, split)
    # the split alternatives are exhaustive inside the box (checked once per kind, in its first sub-case)
    if split == split_names(kind)[0] and split:
        for alts in splits(kind, V):
            case.prove(box(kind, V), z3.Or(*[f for _, f in alts]), "case split exhaustive inside the box")

    def run():
        eng = E.cur()
        for c in box(kind, V) + sa:
            eng.assume(c)
        vals = {k: SReal(v) for k, v in V.items()}
        return run_fit(kind, vals, vals["T0"])

    with symbolic_fit():
        paths = case.explore(run)

    def b(label):
        return lambda m: dict(kind=kind, label=label, vals=model_env(m, case.inputs))

    excl = [("C12-H", region_H(kind, V))]
    types = {}
    for p in paths:
        if p.outcome != "ret":
            case.rep["exc_outcomes"][type(p.value).__name__] = case.rep["exc_outcomes"].get(type(p.value).__name__, 0) + 1
            case.prove(p, False, "no exception", replay=("fit", b("structure")), exclude=excl)
            continue
        r = p.value
        types[r["model_type"]] = types.get(r["model_type"], 0) + 1
        m = case.twin(p)
        ok, why = structure_ok(r)
        if not case.ground(ok, "declared model type <-> coefficients present; key/name consistent") and m is not None:
            okr, det = replay_fit(dict(kind=kind, label="structure", vals=model_env(m, case.inputs)))
            if okr:
                case.violation("declared model type <-> coefficients present; key/name consistent", "fit",
                               dict(kind=kind, label="structure", vals=model_env(m, case.inputs)), det)
            else:
                case.rep["nonreproducing"].append(dict(label="structure", inputs=model_env(m, case.inputs), detail=why))
            continue
        O = _pack(kind, V, r)
        for label, claim in claims(kind, V, O).items():
            case.prove(p, claim, label, replay=("fit", b(label)), exclude=excl)
        if "crossed" not in split and "ksum>1" not in split:  # exact ties of the shifted balance points (real arithmetic) are broken by float rounding there
            case.validate(p, dict(scored=r["scored"], kept=r["kept"], predicted=r["predicted"], model_type=r["model_type"]),
                          lambda mdl: model_env(mdl, case.inputs),
                          lambda inp: (lambda rr: dict(scored=rr["scored"], kept=rr["kept"], predicted=rr["predicted"], model_type=rr["model_type"]))(run_fit(kind, inp, inp["T0"], real=True)))
        if m is not None and len(case.rep["samples"]) < 2:
            case.sample(dict(path_decisions=p.decisions, stored_type=r["model_type"], witness=model_env(m, case.inputs)))
    case.note(f"stored types reached: {types}")
    if kind.startswith("hdd_tidd_cdd"):
        if "crossed" in split:
            case.regime("raw balance points crossed", len(paths) > 0)
        if any(t in types for t in ("hdd_tidd", "tidd_cdd", "hdd_tidd_smooth", "tidd_cdd_smooth")):
            case.regime("reduced to single-slope")
        if "tidd" in types:
            case.regime("reduced to flat")
    if kind == "hdd_tidd_cdd_smooth" and "hdd_tidd_cdd_smooth" in types:
        case.regime("smoothing kept")
