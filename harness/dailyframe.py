"""Shared pieces for the frame-level daily/billing harnesses (C02, C05, C06a, C07, C19):
stored-model documents, symbolic frames (symreal columns with solver-chosen cell states),
float frames rebuilt from a witness, and the real predict runners."""
from __future__ import annotations

import copy
import functools

import numpy as np
import pandas as pd
import z3

import opendsm.eemeter.models.daily.model as dm
from opendsm.eemeter.models.billing.model import BillingModel
from symv import engine as E
from symv.proxies import NAN, INF, SBool, SReal, boolean, real, mval
from symv.symarray import SymArray, cells

_SETTINGS = {}


def _settings(cls):
    if cls not in _SETTINGS:
        _SETTINGS[cls] = cls().settings.model_dump()
    return copy.deepcopy(_SETTINGS[cls])


COEFFS = {
    "flat": dict(model_type="tidd", intercept=10.0),
    "flat2": dict(model_type="tidd", intercept=20.0),
    "vshape": dict(model_type="hdd_tidd_cdd", intercept=10.0, hdd_bp=50.0, hdd_beta=2.0, cdd_bp=70.0, cdd_beta=0.5),
    "heat": dict(model_type="hdd_tidd", intercept=7.0, hdd_bp=55.0, hdd_beta=-1.5),
    "smooth": dict(model_type="hdd_tidd_cdd_smooth", intercept=12.0, hdd_bp=45.0, hdd_beta=1.0, hdd_k=0.3, cdd_bp=72.0, cdd_beta=0.8, cdd_k=0.2),
}
TC = dict(T_min=0.0, T_max=100.0, T_min_seg=5.0, T_max_seg=95.0)


def doc(layout="single", cls=dm.DailyModel, tz="US/Pacific", dq=()):
    """stored-model document.  layout: 'single' (one flat sub-model), 'single-v' (one V-shaped),
    'wdwe' (weekday: V-shaped, weekend: flat), 'wdwe-flat' (two flat sub-models with different base loads), 'season' (summer heat / shoulder+winter flat)"""
    def sub(kind, f=1.0):
        return dict(coefficients=dict(COEFFS[kind]), temperature_constraints=dict(TC), f_unc=f)
    if layout == "single":
        subs = {"fw-su_sh_wi": sub("flat")}
    elif layout == "single-v":
        subs = {"fw-su_sh_wi": sub("vshape", 2.0)}
    elif layout == "wdwe":
        subs = {"wd-su_sh_wi": sub("vshape", 2.0), "we-su_sh_wi": sub("flat", 3.0)}
    elif layout == "wdwe-flat":
        subs = {"wd-su_sh_wi": sub("flat", 2.0), "we-su_sh_wi": sub("flat2", 3.0)}
    elif layout == "season":
        subs = {"fw-su": sub("heat", 2.0), "fw-sh_wi": sub("flat", 3.0)}
    else:
        raise KeyError(layout)
    st = _settings(cls)
    if cls is BillingModel:
        st["developer_mode"] = True
    return dict(submodels=subs, settings=st,
                info=dict(error={}, baseline_timezone=tz, disqualification=list(dq), warnings=[]))


def model(layout="single", cls=dm.DailyModel, tz="US/Pacific"):
    return cls.from_dict(doc(layout, cls, tz))


# ------------------------------------------------------------ symbolic frames

def choose(name, options):
    """solver-decided finite choice (fork): returns one of `options`"""
    eng = E.cur()
    v = z3.Int(name)
    eng.assume(z3.And(v >= 0, v < len(options)))
    for i, o in enumerate(options[:-1]):
        if eng.branch(v == i):
            return o
    return options[-1]


def sym_cells(prefix, n, states=("val", "nan")):
    """n cells; state of each cell chosen by the solver. returns (cells, states)"""
    out, st = [], []
    for i in range(n):
        s = choose(f"{prefix}_state{i}", list(states)) if len(states) > 1 else states[0]
        st.append(s)
        if s == "val":
            out.append(real(f"{prefix}{i}"))
        elif s == "nan":
            out.append(NAN)
        elif s == "inf":
            out.append(INF)
        elif s == "zero":
            out.append(0.0)
        else:
            raise KeyError(s)
    return out, st


def sym_frame(idx, with_observed=True, t_states=("val", "nan"), o_states=("val", "nan"), tname="T", oname="o"):
    n = len(idx)
    T, ts = sym_cells(tname, n, t_states)
    cols = {"temperature": SymArray(T)}
    os_ = None
    if with_observed:
        O, os_ = sym_cells(oname, n, o_states)
        cols["observed"] = SymArray(O)
    df = pd.DataFrame(cols, index=idx)
    return df, ts, os_


def float_frame(idx, env, ts, os_, tname="T", oname="o"):
    """float64 twin of sym_frame under a witness env {var: float}"""
    def col(prefix, states):
        out = []
        for i, s in enumerate(states):
            out.append({"val": env.get(f"{prefix}{i}", 0.0), "nan": np.nan, "inf": np.inf, "zero": 0.0}[s] if s != "val" else float(env.get(f"{prefix}{i}", 0.0)))
        return np.array(out, dtype=float)
    cols = {"temperature": col(tname, ts)}
    if os_ is not None:
        cols["observed"] = col(oname, os_)
    return pd.DataFrame(cols, index=idx)


def finite(x):
    """cell has a finite value (symbolic cells are finite by construction)"""
    if isinstance(x, SReal):
        return True
    if x is None:
        return False
    try:
        return bool(np.isfinite(x))
    except TypeError:
        return False


def index_catalogue(kind, n):
    """a few concrete tz-aware daily indexes of n rows (structure is enumerated, values are symbolic)"""
    cat = {
        "pacific-dst": pd.date_range("2021-03-12", periods=n, freq="D", tz="US/Pacific"),
        "utc": pd.date_range("2021-06-29", periods=n, freq="D", tz="UTC"),
        "sydney": pd.date_range("2021-10-01", periods=n, freq="D", tz="Australia/Sydney"),
        "gap": pd.DatetimeIndex(list(pd.date_range("2021-08-28", periods=n + 2, freq="D", tz="Europe/London"))[:1] +
                                list(pd.date_range("2021-08-28", periods=n + 2, freq="D", tz="Europe/London"))[3:]),
        "unsorted": pd.date_range("2021-12-30", periods=n, freq="D", tz="US/Eastern")[::-1],
    }
    return cat[kind]


def validate_frame(case, path, sym_df, real_fn, cols, stride=1, counter=[0]):
    """Serval-style translation validation for frame-level harnesses: the path's witness goes through the real float64
    code (`real_fn(env) -> DataFrame`), every cell of `cols` must agree with the symbolic frame evaluated at the witness."""
    import z3 as _z3
    from symv.engine import solve
    from symv.proxies import numeval, lift, model_env, SReal
    counter[0] += 1
    if stride > 1 and counter[0] % stride:
        return None
    m = path.model
    if m is None:
        r, m = solve(path.pc, stats=case.stats, seed=case.seed)
        if r != "sat":
            return None
        path.model = m
    env = model_env(m, case.inputs)
    try:
        real = real_fn(env)
        why = None
        if list(real.index) != list(sym_df.index):
            why = f"index {list(real.index)[:3]} vs {list(sym_df.index)[:3]}"
        else:
            for c in cols:
                for t, a, b in zip(sym_df.index, cells(sym_df[c]), real[c].to_numpy(dtype=float)):
                    av = numeval(_z3.simplify(lift(a)), env) if isinstance(a, SReal) else (float(a) if a is not None else float("nan"))
                    if (av != av) != (b != b) or (av == av and abs(av - b) > 1e-6 * max(1.0, abs(b))):
                        why = f"{c}@{t}: symbolic {av} vs real {b}"
                        break
                if why:
                    break
    except Exception as ex:  # noqa
        why = f"real run raised {ex!r}"
    if why is None:
        case.rep["validated"] += 1
        return True
    case.rep["validation_mismatch"].append(dict(case=case.name, inputs=env, why=why))
    return False
