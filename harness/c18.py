"""C18 - CalTRACK hourly: each hour belongs to its own month; bin features sum to T.

Executed symbolically: compute_temperature_bin_features (symbolic temperature, symbolic strictly increasing
endpoints), caltrack_hourly_fit/prediction_feature_processor + compute_occupancy_feature (symbolic temperature,
solver-chosen occupancy flag and endpoint subset), segment_time_series/_segment_weights_* and
_PredictionSegmentInfo (solver-chosen month and boundary hour, 3 zones), SegmentedModel.predict with stub segment
models returning fresh symbols (routing), compute_time_features (168 hours of the week)."""
from __future__ import annotations

import numpy as np
import pandas as pd
import z3

import opendsm.eemeter.common.features as ft
import opendsm.eemeter.models.hourly_caltrack.model as cm
import opendsm.eemeter.models.hourly_caltrack.segmentation as sg
from symv import engine as E
from symv.case import Case
from symv.claims import violated
from symv.proxies import NAN, SReal, is_nan, lift, model_env, real, to_real
from symv.symarray import SymArray, cells

from . import dailyframe as F

EXPLANATION = "C18: bin features, occupancy exclusivity, month weights/partition of unity, month routing of prediction, hour-of-week."
BOUNDS = {"quick": dict(endpoints="k <= 4 symbolic + all 64 subsets of the 6 default candidates", months="12 x {first,last} hour x 3 zones", hours_of_week=168),
          "thorough": dict(endpoints="k <= 6 symbolic + all 64 subsets", months="12 x {first,last} hour x 5 zones", hours_of_week=168)}
STUBS = ["segment models: stub objects whose predict() returns one fresh symbol per segment (patsy/statsmodels prediction is outside the claim)"]
MODELS_USED = ["symreal ExtensionArray", "comparisons with +-inf resolved concretely"]
ASSUMPTIONS = ["CalTRACKSegmentModel.predict (patsy design matrix + statsmodels params) is outside the claim",
               "zones/months/hours are enumerated by solver forks over finite domains (exhaustive)"]
EXPECTED_REGIMES = ["temperature exactly on an endpoint", "temperature below the first endpoint", "temperature above the last endpoint", "NaN temperature",
                    "occupied hour", "unoccupied hour", "month boundary hour", "same instants segmented earlier in another zone"]
EXHAUSTIVE = False
DEFAULT_BINS = [30, 45, 55, 65, 75, 90]
ZONES = ["UTC", "US/Pacific", "Australia/Sydney"]
MONTHS = ["jan", "feb", "mar", "apr", "may", "jun", "jul", "aug", "sep", "oct", "nov", "dec"]


def ENCODED():
    return [ft.compute_temperature_bin_features, ft.compute_occupancy_feature, ft.compute_time_features, cm.caltrack_hourly_fit_feature_processor,
            cm.caltrack_hourly_prediction_feature_processor, sg.segment_time_series, sg._segment_weights_one_month, sg._segment_weights_three_month,
            sg._segment_weights_three_month_weighted, sg.iterate_segmented_dataset, sg.SegmentedModel.predict, cm._PredictionSegmentInfo.__init__]


def cases(tier, seed):
    ks = [0, 1, 2, 3, 4] + ([5, 6] if tier == "thorough" else [])
    out = [f"bins/{k}" for k in ks] + [f"processor/{kd}-{occ}-{o}" for kd in ("fit", "predict") for occ in (0, 1) for o in (0, 1, 2)] + ["how/168"]
    zones = ZONES + (["Europe/London", "Asia/Kolkata"] if tier == "thorough" else [])
    out += [f"weights/{z.replace('/', '|')}" for z in zones] + [f"route/{z.replace('/', '|')}" for z in zones[:2]]
    return out


# ------------------------------------------------------------------ bins

def bin_claims(T, B, got):
    """T z3 Real; B list of z3 endpoints (strictly increasing); got list of z3 terms (len(B)+1)"""
    zmin = lambda a, b: z3.If(a <= b, a, b)
    zmax = lambda a, b: z3.If(a >= b, a, b)
    k = len(B)
    cl = {}
    cl["bin features sum to the temperature"] = sum(got, z3.RealVal(0)) == T
    exp = []
    if k == 0:
        exp.append(T)
    else:
        exp.append(zmin(T, B[0]))
        for i in range(1, k):
            exp.append(zmin(zmax(T - B[i - 1], 0), B[i] - B[i - 1]))
        exp.append(zmax(T - B[k - 1], 0))
    cl["each bin is filled in order up to its width"] = z3.And(*[g == e for g, e in zip(got, exp)])
    return cl


def run_bins_sym(k, nan_row):
    eng = E.cur()
    B = [z3.Real(f"b{i}") for i in range(k)]
    for i in range(1, k):
        eng.assume(B[i - 1] < B[i])
    idx = pd.date_range("2021-01-01", periods=2, freq="h", tz="UTC")
    temps = pd.Series(SymArray([real("T"), NAN if nan_row else real("T2")]), index=idx)
    ends = [SReal(b) for b in B]
    keep = list(ends)
    out = ft.compute_temperature_bin_features(temps, ends)
    # the same list object is handed over a second time (callers keep their endpoint list across segments/batches)
    untouched = len(ends) == len(keep) and all(a is b for a, b in zip(ends, keep))
    out2 = ft.compute_temperature_bin_features(temps, ends)
    same = out2.shape == out.shape and list(out2.columns) == list(out.columns) and all(
        (is_nan(a) and is_nan(b)) or (isinstance(a, SReal) and isinstance(b, SReal) and z3.eq(z3.simplify(lift(a)), z3.simplify(lift(b)))) or
        (not isinstance(a, SReal) and not isinstance(b, SReal) and a == b)
        for c in out.columns for a, b in zip(cells(out[c]), cells(out2[c])))
    out.attrs["verif_repeat"] = (untouched, same)
    return out


def replay_bins(inp):
    env = inp["env"]
    k = inp["k"]
    B = [float(env[f"b{i}"]) for i in range(k)]
    idx = pd.date_range("2021-01-01", periods=2, freq="h", tz="UTC")
    temps = pd.Series([float(env["T"]), np.nan], index=idx)
    ends = list(B)
    out = ft.compute_temperature_bin_features(temps, ends)
    if inp["label"] == "repeat":
        out2 = ft.compute_temperature_bin_features(temps, ends)
        bad = ends != list(B) or out2.shape != out.shape or not np.array_equal(out.to_numpy(dtype=float), out2.to_numpy(dtype=float), equal_nan=True)
        return bad, f"endpoint list {B} -> {ends} after one call; second call with the same list gives {out2.shape[1]} bins {list(out2.iloc[0])} (first: {list(out.iloc[0])})"
    row = [float(x) for x in out.iloc[0]]
    e2 = dict(env)
    Bz = [z3.Real(f"b{i}") for i in range(k)]
    G = [z3.Real(f"g{i}") for i in range(k + 1)]
    for i, v in enumerate(row):
        e2[f"g{i}"] = v
    bad = len(row) != k + 1 or violated(bin_claims(z3.Real("T"), Bz, G)[inp["label"]], e2, rel=1e-9, abs_=1e-9) or not all(np.isnan(x) for x in out.iloc[1])
    return bad, f"bins {row} for T={env['T']} endpoints={B}; NaN row -> {list(out.iloc[1])}"


def run_bins(case, k):
    Bz = [z3.Real(f"b{i}") for i in range(k)]
    case.inputs = [z3.Real("T"), z3.Real("T2")] + Bz
    for nan_row in (True, False):
        paths = case.explore(lambda: run_bins_sym(k, nan_row))
        for p in paths:
            rp = lambda label: ("bins", lambda mdl: dict(k=k, label=label, env=model_env(mdl, case.inputs)))
            if p.outcome != "ret":
                case.prove(p, False, "bin features computed", replay=rp("bin features sum to the temperature"))
                continue
            out = p.value
            case.twin(p)
            untouched, same = out.attrs.get("verif_repeat", (False, False))
            case.prove(p, bool(untouched and same), "the caller's endpoint list is left as it was and a second call with the same list gives the same features", replay=rp("repeat"))
            ok = out.shape == (2, k + 1) and list(out.columns) == [f"bin_{i}" for i in range(k + 1)]
            case.prove(p, ok, "one feature column per bin", replay=rp("bin features sum to the temperature"))
            if not ok:
                continue
            for r, Tn in ((0, "T"), (1, "T2")):
                row = [cells(out[c])[r] for c in out.columns]
                if r == 1 and nan_row:
                    case.prove(p, all(is_nan(x) for x in row), "NaN temperature gives NaN in every bin", replay=rp("bin features sum to the temperature"))
                    case.regime("NaN temperature")
                    continue
                if any(is_nan(x) for x in row):
                    case.prove(p, False, "finite temperature gives finite bins", replay=rp("bin features sum to the temperature"))
                    continue
                got = [to_real(lift(x)) for x in row]
                for label, cl in bin_claims(z3.Real(Tn), Bz, got).items():
                    case.prove(p, cl, label, replay=rp(label) if r == 0 else None)
            if k:
                case.regime("temperature exactly on an endpoint", case.reach("e", p.pc + [z3.Real("T") == Bz[0]]) is not None)
                case.regime("temperature below the first endpoint", case.reach("e1", p.pc + [z3.Real("T") < Bz[0]]) is not None)
                case.regime("temperature above the last endpoint", case.reach("e2", p.pc + [z3.Real("T") > Bz[-1]]) is not None)
            if len(case.rep["samples"]) < 1 and p.model is not None:
                case.sample(dict(endpoints=k, witness=model_env(p.model, case.inputs)))


# ------------------------------------------------------------------ processors

def lookup_frames(occ, occ_subset, unocc_subset, segs=("jan",)):
    how = pd.Series([occ] * 168, index=pd.Index(range(168), name="hour_of_week"))
    occupancy_lookup = pd.DataFrame({seg: how for seg in segs})
    ob = pd.DataFrame({seg: [b in occ_subset for b in DEFAULT_BINS] for seg in segs}, index=pd.Series(DEFAULT_BINS, name="bin_endpoints"))
    ub = pd.DataFrame({seg: [b in unocc_subset for b in DEFAULT_BINS] for seg in segs}, index=pd.Series(DEFAULT_BINS, name="bin_endpoints"))
    return occupancy_lookup, ob, ub


def run_processor_once(kind, T, occ, occ_subset, unocc_subset):
    idx = pd.date_range("2021-01-04", periods=1, freq="h", tz="UTC")
    tf = ft.compute_time_features(idx, hour_of_week=True, day_of_week=False, hour_of_day=False)
    data = pd.DataFrame({"temperature_mean": SymArray([T]) if isinstance(T, SReal) else [T], "hour_of_week": tf["hour_of_week"], "weight": [1.0]}, index=idx)
    if kind == "fit":
        data.insert(0, "meter_value", [1.0])
        fn = cm.caltrack_hourly_fit_feature_processor
    else:
        fn = cm.caltrack_hourly_prediction_feature_processor
    lk, ob, ub = lookup_frames(occ, occ_subset, unocc_subset)
    return fn("jan", data, lk, ob, ub)


def proc_check(out, T, occ, occ_subset, unocc_subset, sym):
    """returns dict label -> claim (z3 when sym) about one output row"""
    oc = [c for c in out.columns if c.endswith("_occupied")]
    uc = [c for c in out.columns if c.endswith("_unoccupied")]
    val = (lambda c: to_real(lift(cells(out[c])[0]))) if sym else (lambda c: float(out[c].iloc[0]))
    so = sum((val(c) for c in oc), z3.RealVal(0) if sym else 0.0)
    su = sum((val(c) for c in uc), z3.RealVal(0) if sym else 0.0)
    And = z3.And if sym else (lambda *a: all(a))
    cl = {}
    cl["column counts match the endpoint subsets"] = (z3.BoolVal if sym else bool)(len(oc) == len(occ_subset) + 1 and len(uc) == len(unocc_subset) + 1)
    if occ == 1:
        cl["occupied hour: occupied bins sum to T, unoccupied bins are all zero"] = And(so == T, *[val(c) == 0 for c in uc]) if sym else (abs(so - T) < 1e-9 and all(val(c) == 0 for c in uc))
    else:
        cl["unoccupied hour: unoccupied bins sum to T, occupied bins are all zero"] = And(su == T, *[val(c) == 0 for c in oc]) if sym else (abs(su - T) < 1e-9 and all(val(c) == 0 for c in oc))
    return cl


def replay_proc(inp):
    out = run_processor_once(inp["kind"], float(inp["T"]), inp["occ"], inp["occ_subset"], inp["unocc_subset"])
    cl = proc_check(out, float(inp["T"]), inp["occ"], inp["occ_subset"], inp["unocc_subset"], False)
    bad = [k for k, v in cl.items() if not v]
    return bool(bad), f"{bad}: {out.iloc[0].to_dict()}"


def run_processor(case, arg):
    kind, occ_s, other_s = arg.split("-")
    case.inputs = [z3.Real("T")]

    def run():
        occ = int(occ_s)
        flags = [F.choose(f"use_{b}", [True, False]) for b in DEFAULT_BINS]
        subset = [b for b, f in zip(DEFAULT_BINS, flags) if f]
        other = [DEFAULT_BINS, [], [55]][int(other_s)]
        occ_subset, unocc_subset = (subset, other) if occ == 1 else (other, subset)
        out = run_processor_once(kind, real("T"), occ, occ_subset, unocc_subset)
        return occ, occ_subset, unocc_subset, out

    paths = case.explore(run)
    for p in paths:
        if p.outcome != "ret":
            case.rep["harness_errors"].append(f"processor raised {p.value!r}")
            continue
        occ, os_, us_, out = p.value
        rp = ("proc", (lambda a, b, c: lambda mdl: dict(kind=kind, T=model_env(mdl, case.inputs)["T"], occ=a, occ_subset=b, unocc_subset=c))(occ, os_, us_))
        for label, cl in proc_check(out, z3.Real("T"), occ, os_, us_, True).items():
            case.prove(p, cl, label, replay=rp)
        case.regime("occupied hour", occ == 1)
        case.regime("unoccupied hour", occ == 0)
    case.sample(dict(processor=kind, paths=len(paths), subsets="all 64 subsets of the default candidates for the active mode x 3 for the other"))


# ------------------------------------------------------------------ weights / routing

def boundary_index(zone, month, which, y=2020):  # leap year
    if which == "first":
        t = pd.Timestamp(year=y, month=month, day=1, hour=0, tz=zone)
    else:
        nm = pd.Timestamp(year=y + (month == 12), month=month % 12 + 1, day=1, hour=0, tz=zone)
        t = nm - pd.Timedelta(hours=1)
    return pd.DatetimeIndex([t])


def expected_weights(seg_type, month):
    """independent statement: month -> {segment name: weight}"""
    prev, nxt = (month - 2) % 12 + 1, month % 12 + 1
    if seg_type == "single":
        return {"all": 1.0}
    if seg_type == "one_month":
        return {MONTHS[m - 1]: (1.0 if m == month else 0.0) for m in range(1, 13)}
    names = {}
    for c in range(1, 13):  # segment centred on month c
        a, b = (c - 2) % 12 + 1, c % 12 + 1
        nm = f"{MONTHS[a - 1]}-{MONTHS[c - 1]}-{MONTHS[b - 1]}" + ("-weighted" if seg_type == "three_month_weighted" else "")
        if seg_type == "three_month":
            names[nm] = 1.0 if month in (a, c, b) else 0.0
        else:
            names[nm] = 1.0 if month == c else (0.5 if month in (a, b) else 0.0)
    return names


def weights_problems(zone, month, which, prior=None):
    """prior: None, or a zone in which the same instants were segmented earlier in the same process (a portfolio kept in
    UTC and localised per site): earlier calls must not matter"""
    idx = boundary_index(zone, month, which, 2020 if prior is None else 2024)  # histories do not share instants
    pr = []
    for seg_type in ("single", "one_month", "three_month", "three_month_weighted"):
        if prior is not None:
            sg.segment_time_series(idx.tz_convert(prior), seg_type)
        w = sg.segment_time_series(idx, seg_type)
        got = {c: float(w[c].iloc[0]) for c in w.columns}
        exp = expected_weights(seg_type, idx[0].month)
        if got != exp:
            pr.append(f"{seg_type}: {got} != {exp}")
        if seg_type == "three_month_weighted":
            if sorted(got.values(), reverse=True)[:3] != [1.0, 0.5, 0.5] or sum(got.values()) != 2.0:
                pr.append("not one full weight and two half weights")
    info = cm._PredictionSegmentInfo("three_month_weighted")
    m = idx[0].month
    fit_name = info.prediction_segment_name_mapping[MONTHS[m - 1]]
    if expected_weights("three_month_weighted", m).get(fit_name) != 1.0 or info.prediction_segment_type != "one_month":
        pr.append(f"month {m} is predicted by {fit_name}, which is not the segment with full weight in that month")
    return pr, str(idx[0])


def replay_weights(inp):
    pr, t = weights_problems(inp["zone"], inp["month"], inp["which"], inp.get("prior"))
    return bool(pr), f"{t}: " + "; ".join(pr[:3])


def run_weights(case, zone):
    case.inputs = []

    def run():
        month = F.choose("month", list(range(1, 13)))
        which = F.choose("which", ["first", "last"])
        prior = F.choose("prior", [None, "UTC" if zone != "UTC" else "Pacific/Auckland"])
        return month, which, prior, weights_problems(zone, month, which, prior)

    paths = case.explore(run)
    for p in paths:
        if p.outcome != "ret":
            case.rep["harness_errors"].append(f"weights raised {p.value!r}")
            continue
        month, which, prior, (pr, t) = p.value
        case.prove(p, not pr, "full weight in exactly the own-month model, half weight in its two neighbours (fit); own month only (predict)",
                   replay=("weights", (lambda a, b, c: lambda mdl: dict(zone=zone, month=a, which=b, prior=c))(month, which, prior)))
        case.regime("month boundary hour")
        case.regime("same instants segmented earlier in another zone", prior is not None)
    case.sample(dict(zone=zone, hours="first and last local hour of each month of 2020"))


class _StubSeg:
    """stand-in for CalTRACKSegmentModel: predict returns one fresh symbol (statsmodels/patsy are outside the claim)"""

    def __init__(self, name, value):
        self.segment_name = name
        self.value = value

    def predict(self, data):
        return pd.Series(SymArray([self.value] * len(data)), index=data.index)


def route_run(zone, month, which, sym, unable=None, pzone=None):
    """unable: None, or 0/1 = the own-month model of the first/second hour cannot predict (returns NaN, as a segment model
    does for an hour of the week it never saw): that hour has no prediction - no other month's model may fill in"""
    idx = boundary_index(zone, month, which)
    fit_names = list(expected_weights("three_month_weighted", 1))
    vals = {n: (real(f"seg_{i}") if sym else float(100 + i)) for i, n in enumerate(fit_names)}
    if unable is not None:
        t_un = pd.date_range(boundary_index(zone, month, "last")[0], periods=2, freq="h")[unable]
        vals[[n for n in fit_names if expected_weights("three_month_weighted", t_un.month)[n] == 1.0][0]] = float("nan")
    models = [_StubSeg(n, vals[n]) for n in fit_names]
    lk, ob, ub = lookup_frames(1, DEFAULT_BINS, DEFAULT_BINS, fit_names)
    model = cm.CalTRACKHourlyModel(models, lk, ob, ub, "three_month_weighted")  # the real class, real feature processor
    idx = pd.date_range(boundary_index(zone, month, "last")[0], periods=2, freq="h")  # last hour of the month and the next one
    temp = pd.Series([50.0, 51.0], index=idx)
    # pzone: the prediction index may name the same instants in another zone; the hour's month is that of the weather series
    res = model.predict(idx if pzone is None else idx.tz_convert(pzone), temp).result
    own = [[n for n in fit_names if expected_weights("three_month_weighted", t.month)[n] == 1.0][0] for t in idx]
    return res, vals, own, fit_names


def replay_route(inp):
    global SymArray
    res, vals, own, names = _route_concrete(inp["zone"], inp["month"], inp["which"], inp.get("unable"), inp.get("pzone"))
    got = [float(x) for x in res["predicted_usage"]]
    want = [vals[o] for o in own]
    same = all((a != a and b != b) or a == b for a, b in zip(got, want)) and len(got) == len(want)
    return not same, f"predictions {got} are not the own-month models' {own}: {want}"


def _route_concrete(zone, month, which, unable=None, pzone=None):
    class _C(_StubSeg):
        def predict(self, data):
            return pd.Series([self.value] * len(data), index=data.index)
    idx = boundary_index(zone, month, which)
    names = list(expected_weights("three_month_weighted", 1))
    vals = {n: float(100 + i) for i, n in enumerate(names)}
    if unable is not None:
        t_un = pd.date_range(boundary_index(zone, month, "last")[0], periods=2, freq="h")[unable]
        vals[[n for n in names if expected_weights("three_month_weighted", t_un.month)[n] == 1.0][0]] = float("nan")
    lk, ob, ub = lookup_frames(1, DEFAULT_BINS, DEFAULT_BINS, names)
    model = cm.CalTRACKHourlyModel([_C(n, vals[n]) for n in names], lk, ob, ub, "three_month_weighted")
    idx = pd.date_range(boundary_index(zone, month, "last")[0], periods=2, freq="h")
    res = model.predict(idx if pzone is None else idx.tz_convert(pzone), pd.Series([50.0, 51.0], index=idx)).result
    own = [[n for n in names if expected_weights("three_month_weighted", t.month)[n] == 1.0][0] for t in idx]
    return res, vals, own, names


def run_route(case, zone):
    case.inputs = [z3.Real(f"seg_{i}") for i in range(12)]

    def run():
        month = F.choose("month", list(range(1, 13)))
        which = "last"
        unable = F.choose("unable", [None, 0, 1])
        pzone = F.choose("pzone", [None, "UTC"]) if zone != "UTC" else F.choose("pzone", [None, "Pacific/Auckland"])
        return month, which, unable, pzone, route_run(zone, month, which, True, unable, pzone)

    paths = case.explore(run)
    for p in paths:
        if p.outcome != "ret":
            case.rep["harness_errors"].append(f"route raised {p.value!r}")
            continue
        month, which, unable, pzone, (res, vals, own, names) = p.value
        got = cells(res["predicted_usage"])
        rp = ("route", (lambda a, b, u, z: lambda mdl: dict(zone=zone, month=a, which=b, unable=u, pzone=z))(month, which, unable, pzone))
        case.regime("prediction index in another zone than the weather series", pzone is not None)
        nan_own = [isinstance(vals[o], float) and vals[o] != vals[o] for o in own]
        ok = len(got) == 2 and all((is_nan(g) if nn else isinstance(g, SReal)) for g, nn in zip(got, nan_own))
        case.prove(p, z3.And(*[to_real(lift(g)) == lift(vals[o]) for g, o, nn in zip(got, own, nan_own) if not nn]) if ok else False,
                   "each hour is predicted only by its own month's model (both sides of every month boundary); no prediction when that model has none", replay=rp)
        case.regime("own-month model without a prediction for the hour", unable is not None)
    case.sample(dict(zone=zone, routing="12 months x first/last hour, stub segment models with symbolic outputs"))


# ------------------------------------------------------------------ hour of week

def run_how(case):
    bad = []
    n = 0
    for zone, start in (("UTC", "2021-01-04"), ("US/Pacific", "2021-03-08"), ("Australia/Sydney", "2021-03-29")):
        idx = pd.date_range(start, periods=24 * 14, freq="h", tz=zone)
        tf = ft.compute_time_features(idx)
        for t, how, dow, hod in zip(idx, tf["hour_of_week"], tf["day_of_week"], tf["hour_of_day"]):
            n += 1
            if int(how) != 24 * t.dayofweek + t.hour or int(dow) != t.dayofweek or int(hod) != t.hour:
                bad.append(f"{t}: hour_of_week {how}")
        if sorted(set(int(x) for x in tf["hour_of_week"])) != list(range(168)):
            bad.append(f"{zone}: not all 168 values")
    if not case.ground(not bad, "hour_of_week == 24 x weekday + hour for all 168 values"):
        case.violation("hour_of_week == 24 x weekday + hour for all 168 values", "how", {}, "; ".join(bad[:3]))
    case.rep["paths"] += n
    case.rep["nontrivial_paths"] += 168
    case.sample(dict(hours=n, zones=3))


def replay_how(inp):
    c = Case("C18", "replay", "quick", 0)
    run_how(c)
    return bool(c.rep["violations"]), "hour_of_week mismatch"


REPLAY = {"bins": replay_bins, "proc": replay_proc, "weights": replay_weights, "route": replay_route, "how": replay_how}


def run_case(case: Case, name: str):
    kind, arg = name.split("/")
    if kind == "bins":
        return run_bins(case, int(arg))
    if kind == "processor":
        return run_processor(case, arg)
    if kind == "weights":
        return run_weights(case, arg.replace("|", "/"))
    if kind == "route":
        return run_route(case, arg.replace("|", "/"))
    return run_how(case)
