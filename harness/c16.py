"""C16 - reported fit statistics are the true statistics of the model predictions.

Executed symbolically: BaselineMetrics / ColumnMetrics computed fields, _safe_divide, ReportingMetrics (savings,
uncertainty), DailyModel._get_error_metrics, on observed/predicted columns that are `symreal` with solver-chosen NaN
states (rows 2..3 quick, ..4 thorough), symbolic parameter count."""
from __future__ import annotations

import types

import numpy as np
import pandas as pd
import z3

import opendsm.common.metrics as mt
import opendsm.eemeter.models.daily.model as dm
import opendsm.eemeter.models.hourly.model as hmod
from symv import engine as E
from symv.carriers import patched, symnp, symarr
from symv.case import Case
from symv.claims import violated
from symv.proxies import NAN, SInt, SReal, integer, lift, model_env, real, to_real, is_nan
from symv.symarray import SymArray, cells

from . import dailyframe as F

EXPLANATION = "C16: textbook identities of every reported statistic, undefined-ratio rule of _safe_divide, savings/uncertainty formula, daily error metrics."
BOUNDS = {"quick": dict(rows="2..3", nan_states="solver-chosen per cell", num_model_params="any int >= 1"),
          "thorough": dict(rows="2..4", nan_states="solver-chosen per cell", num_model_params="any int >= 1")}
STUBS = ["builtin float() inside opendsm.common.metrics -> identity on symbolic values", "PydanticDf (dtype check) -> permissive twin", "pandas Series.autocorr / DataFrame.corr -> fresh symbol in [-1,1] or NaN (pandas' contract)",
         "t_stat (scipy t quantile) -> fresh positive symbol", "skew/kurtosis not evaluated"]
MODELS_USED = ["symreal reductions (sum, mean, var ddof=0, median)", "symnp.quantile (sorting network + numpy linear interpolation)", "sqrt: s>=0, s*s==x"]
ASSUMPTIONS = ["floats as reals; min_denominator 1e-3 enters as its exact rational value", "inf cells are not enumerated (NaN only): np.isfinite treats both alike"]
EXPECTED_REGIMES = ["row dropped for NaN", "ratio undefined (denominator not safely positive)", "ddof clipped to 1", "autocorrelation undefined", "reporting row with usage but no prediction", "hourly: interpolated row kept out of the metrics", "usage of both signs", "series of different lengths"]
MIN_DEN = 1e-3
RATIOS = {  # field -> (numerator field, denominator kind)
    "nmae": ("mae", "mean"), "pnmae": ("mae", "iqr"), "nmbe": ("mbe", "mean"), "pnmbe": ("mbe", "iqr"),
    "cvrmse": ("rmse", "mean"), "cvrmse_adj": ("rmse_adj", "mean"), "pnrmse": ("rmse", "iqr"), "pnrmse_adj": ("rmse_adj", "iqr"),
    "cvrmse_autocorr_adj": ("rmse_autocorr_adj", "mean"), "pnrmse_autocorr_adj": ("rmse_autocorr_adj", "iqr"),
}


def ENCODED():
    return [mt.BaselineMetrics._df.func, mt.BaselineMetrics.n_prime.func, mt.BaselineMetrics.ddof.func, mt.BaselineMetrics.ddof_autocorr.func,
            mt.BaselineMetrics.mae.func, mt.BaselineMetrics.sse.func, mt.BaselineMetrics.rmse.func, mt.BaselineMetrics.rmse_adj.func,
            mt.BaselineMetrics.cvrmse.func, mt.BaselineMetrics.pnrmse.func, mt.BaselineMetrics.r_squared.func, mt.BaselineMetrics.r_squared_adj.func,
            mt.ColumnMetrics.mean.func, mt.ColumnMetrics.variance.func, mt.ColumnMetrics.iqr.func, mt._safe_divide,
            mt.ReportingMetrics.savings.func, mt.ReportingMetrics.total_savings_uncertainty.func, mt.ReportingMetrics.fsu.func,
            dm.DailyModel._get_error_metrics, hmod.HourlyModel._fit, hmod.HourlyModel._adaptive_fit, hmod.HourlyModel._model_fit_is_acceptable]


def cases(tier, seed):
    ns = [2, 3, 4] if tier == "thorough" else [2, 3]
    groups = ["core"] + list(RATIOS) + ["r_squared_adj"]
    out = [f"baseline/{n}/{g}" for n in ns for g in groups] + [f"reporting/{n}" for n in ns[:2]] + ["safe_divide/0", "daily_error/3", "gate/0", "hourly_fit/plain", "hourly_fit/adaptive", "hourly_fit/real", "crosshair/leaves", "conditioning/float", "caltrack_metrics/variants", "objects/daily", "objects/billing"]
    return out


class _PDf:
    def __init__(self, df=None, column_types=None):
        self.df = df


class _AC:
    """stand-ins for pandas' autocorr / corr: result is a fresh symbol in [-1, 1] or NaN (solver-chosen)"""
    @staticmethod
    def rho(name):
        eng = E.cur()
        if F.choose(f"{name}_state", ["val", "nan"]) == "nan":
            eng.path_notes[name] = "nan"
            return np.float64("nan")  # numpy scalar, as pandas returns
        eng.path_notes[name] = "val"
        v = z3.Real(name)
        eng.assume(z3.And(v >= -1, v <= 1))
        return SReal(v)


def _autocorr(self, lag=1):
    return _AC.rho("rho")


def _corr(self, *a, **k):
    r = _AC.rho("r_xy")
    cols = list(self.columns)
    return pd.DataFrame([[np.float64(1.0), r], [r, np.float64(1.0)]], index=cols, columns=cols, dtype=object)


def build_baseline(n, obs, pred, p):
    idx = pd.date_range("2021-01-30", periods=n, freq="D", tz="UTC")
    df = pd.DataFrame({"observed": SymArray(obs) if any(isinstance(x, SReal) for x in obs) or True else obs,
                       "predicted": SymArray(pred)}, index=idx)
    return mt.BaselineMetrics.model_construct(df=df, num_model_params=p)


def _ctx():
    import contextlib
    st = contextlib.ExitStack()
    _float = lambda x: x if isinstance(x, SReal) else float(x)  # `float(expr)` in n_prime: identity on proxies
    st.enter_context(patched(mt, np=symnp, PydanticDf=_PDf, float=_float))
    st.enter_context(patched(pd.Series, autocorr=_autocorr))
    st.enter_context(patched(pd.DataFrame, corr=_corr))
    return st


FIELDS = ["n", "ddof", "n_prime", "ddof_autocorr", "mae", "mbe", "sse", "mse", "rmse", "rmse_adj", "rmse_autocorr_adj", "r_squared", "r_squared_adj"] + list(RATIOS)


CORE = ["n", "ddof", "n_prime", "ddof_autocorr", "mae", "mbe", "sse", "mse", "rmse", "rmse_adj", "rmse_autocorr_adj", "r_squared"]


def collect(bm, fields):
    out = {f: getattr(bm, f) for f in fields}
    out["obs_mean"] = bm.observed.mean
    out["obs_sum"] = bm.observed.sum
    out["obs_var"] = bm.observed.variance
    out["obs_iqr"] = bm.observed.iqr
    out["obs_median"] = bm.observed.median
    out["pred_mean"] = bm.predicted.mean
    return out


def zr(x):
    return to_real(lift(x))


def is_undef(v):
    return v is None or is_nan(v) or (isinstance(v, float) and v in (float("inf"), float("-inf")))


def baseline_claims(rows, p, rho, rxy, got):
    """rows: list of (obs_term, pred_term) z3 of the finite rows; p: z3 Int; rho/rxy: z3 Real or None (undefined).
    got: field -> z3 term or None (undefined).  Returns label -> claim (z3)."""
    n = len(rows)
    res = [o - q for o, q in rows]
    sse = sum((r * r for r in res), z3.RealVal(0))
    sabs = sum((z3.If(r >= 0, r, -r) for r in res), z3.RealVal(0))
    ssum = sum(res, z3.RealVal(0))
    osum = sum((o for o, _ in rows), z3.RealVal(0))
    ddof = z3.If(n - p < 1, z3.IntVal(1), n - p)
    ddof = z3.ToReal(ddof)
    D = lambda k: got[k] is not None
    cl = {}
    cl["n == number of finite pairs"] = z3.BoolVal(D("n")) if not D("n") else got["n"] == n
    cl["ddof == max(n - p, 1)"] = got["ddof"] == ddof if D("ddof") else z3.BoolVal(False)
    cl["sse == sum of squared residuals"] = got["sse"] == sse if D("sse") else z3.BoolVal(False)
    cl["mae == mean |residual|"] = got["mae"] * n == sabs if D("mae") else z3.BoolVal(False)
    cl["mbe == mean residual (observed - predicted)"] = got["mbe"] * n == ssum if D("mbe") else z3.BoolVal(False)
    cl["rmse >= 0 and rmse^2 * n == sse"] = z3.And(got["rmse"] >= 0, got["rmse"] * got["rmse"] * n == sse) if D("rmse") else z3.BoolVal(False)
    cl["rmse_adj >= 0 and rmse_adj^2 * ddof == sse"] = z3.And(got["rmse_adj"] >= 0, got["rmse_adj"] * got["rmse_adj"] * ddof == sse) if D("rmse_adj") else z3.BoolVal(False)
    cl["observed mean/sum"] = z3.And(got["obs_sum"] == osum, got["obs_mean"] * n == osum)
    # autocorrelation-corrected n
    if rho is None:
        npr = z3.RealVal(1)
    else:
        npr = z3.If(rho == -1, z3.RealVal(1), n * (1 - rho) / (1 + rho))
    cl["n_prime == n(1-rho)/(1+rho), 1 when undefined"] = got["n_prime"] == npr if D("n_prime") else z3.BoolVal(False)
    dda = z3.If(npr - z3.ToReal(p) < 1, z3.RealVal(1), npr - z3.ToReal(p))
    cl["rmse_autocorr_adj^2 * max(n_prime - p, 1) == sse"] = z3.And(got["rmse_autocorr_adj"] >= 0, got["rmse_autocorr_adj"] * got["rmse_autocorr_adj"] * dda == sse) if D("rmse_autocorr_adj") else z3.BoolVal(False)
    if rxy is None:
        cl["r_squared == corr^2"] = z3.BoolVal(not D("r_squared"))
    else:
        cl["r_squared == corr^2"] = got["r_squared"] == rxy * rxy if D("r_squared") else z3.BoolVal(False)
    return cl


def ratio_claim(val, num, den):
    """denominator safely positive => value * den == num ; otherwise reported undefined"""
    md = z3.RealVal("1/1000")
    if val is None:
        return den <= md
    return z3.And(den > md, val * den == num)


def region_f(num, den):
    """known finding C16-safe-divide: _safe_divide only refuses when the numerator is > 10*min_denominator"""
    md = z3.RealVal("1/1000")
    return z3.And(den <= md, num <= 10 * md)


# ----------------------------------------------------------------- real runs for replay

def real_baseline(obs, pred, p):
    idx = pd.date_range("2021-01-30", periods=len(obs), freq="D", tz="UTC")
    df = pd.DataFrame({"observed": np.array(obs, dtype=float), "predicted": np.array(pred, dtype=float)}, index=idx)
    return mt.BaselineMetrics(df=df, num_model_params=int(p))


def replay_baseline(inp):
    n = inp["n"]
    env = inp["env"]
    obs = [float(env.get(f"o{i}", 0.0)) if inp["os"][i] == "val" else np.nan for i in range(n)]
    pred = [float(env.get(f"q{i}", 0.0)) if inp["ps"][i] == "val" else np.nan for i in range(n)]
    p = max(1, int(env.get("p", 1)))
    # the lag-1 autocorrelation of the residuals is a contract stub in the symbolic run (any value in [-1, 1] or undefined);
    # obligations that depend on it are replayed with the witness's value injected at the same place (Series.autocorr)
    inject = inp.get("rho_state") if any(k in inp["label"] for k in ("n_prime", "autocorr")) else None
    rho_w = float(env.get("rho", 0.0)) if inject == "val" else float("nan")
    if inject:
        with patched(pd.Series, autocorr=lambda self, lag=1: rho_w):
            bm = real_baseline(obs, pred, p)
            _ = (bm.n_prime, bm.rmse_autocorr_adj)  # cached computed fields: evaluate while the injection is active
    else:
        bm = real_baseline(obs, pred, p)
    fin = [(o, q) for o, q in zip(obs, pred) if np.isfinite(o) and np.isfinite(q)]
    if not fin:
        return False, "no finite rows"
    label = inp["label"]
    o = np.array([a for a, _ in fin])
    q = np.array([b for _, b in fin])
    r = o - q
    k = len(fin)
    ddof = max(k - p, 1)
    sse = float(np.sum(r ** 2))
    rho = rho_w if inject else (pd.Series(r).autocorr(lag=1) if k > 1 else np.nan)
    npr = k * (1 - rho) / (1 + rho) if np.isfinite(rho) and rho != -1 else 1.0
    if not np.isfinite(npr):
        npr = 1.0
    ref = dict(n=k, ddof=ddof, sse=sse, mae=float(np.mean(np.abs(r))), mbe=float(np.mean(r)), rmse=(sse / k) ** 0.5, rmse_adj=(sse / ddof) ** 0.5,
               n_prime=npr, rmse_autocorr_adj=(sse / max(npr - p, 1)) ** 0.5, obs_mean=float(np.mean(o)), obs_iqr=float(np.diff(np.quantile(o, [0.25, 0.75]))[0]))
    ref["r_squared"] = float(np.corrcoef(q, o)[0, 1] ** 2) if k > 1 and np.std(o) > 0 and np.std(q) > 0 else np.nan

    def close(a, b):
        if a is None or b is None:
            return a is None and b is None
        if not np.isfinite(a) or not np.isfinite(b):
            return (not np.isfinite(a)) and (not np.isfinite(b))
        return abs(a - b) <= 1e-9 * max(1.0, abs(a), abs(b))
    if label.startswith("ratio:"):
        f = label.split(":")[1]
        numf, denk = RATIOS[f]
        num, den = ref[numf], ref["obs_mean" if denk == "mean" else "obs_iqr"]
        v = getattr(bm, f)
        if den > MIN_DEN:
            bad = v is None or not close(v, num / den)
        else:
            bad = not (v is None or not np.isfinite(v))
        return bad, f"{f}={v} with numerator {num}, denominator {den}"
    keymap = {"n ==": "n", "ddof ==": "ddof", "sse ==": "sse", "mae ==": "mae", "mbe ==": "mbe", "rmse >=": "rmse", "rmse_adj >=": "rmse_adj",
              "n_prime ==": "n_prime", "rmse_autocorr_adj": "rmse_autocorr_adj", "r_squared ==": "r_squared", "observed mean": "obs_mean"}
    for pre, f in keymap.items():
        if label.startswith(pre):
            v = bm.observed.mean if f == "obs_mean" else getattr(bm, f)
            return (not close(float(v), ref[f])), f"{f}={v}, textbook {ref[f]} (obs={obs}, pred={pred}, p={p})"
    if label.startswith("r_squared_adj"):
        v = bm.r_squared_adj
        den = ddof - 1
        num = (1 - ref["r_squared"]) * (k - 1)
        if den > MIN_DEN:
            return (v is None or not close(v, 1 - num / den)), f"r_squared_adj={v}"
        return not (v is None or not np.isfinite(v)), f"r_squared_adj={v} with denominator {den}"
    return False, "label not replayable"


def replay_safe_divide(inp):
    e = inp["env"]
    num, den, md = float(e["num"]), float(e["den"]), float(e.get("md", MIN_DEN))
    try:
        v = mt._safe_divide(np.float64(num), np.float64(den), md)
    except Exception as ex:
        return True, f"raised {ex!r}"
    if den > md:
        bad = v is None or abs(v * den - num) > 1e-9 * max(1, abs(num))
    else:
        bad = not (v is None or not np.isfinite(v))
    return bad, f"_safe_divide({num}, {den}, {md}) = {v}"


def reporting_index(n, span):
    """'days': consecutive days across a month boundary; 'two-januaries': a period that touches the same calendar month in two
    years (the month polynomial of the uncertainty counts calendar months)"""
    if span == "two-januaries":
        return pd.DatetimeIndex([pd.Timestamp(d, tz="UTC") for d in ["2021-01-30", "2022-01-14", "2021-02-01", "2021-06-01"][:n]]).sort_values()
    return pd.date_range("2021-01-30", periods=n, freq="D", tz="UTC")


def replay_reporting(inp):
    n, env = inp["n"], inp["env"]
    idx = reporting_index(n, inp.get("span", "days"))
    obs = [float(env.get(f"o{i}", 0.0)) if inp["os"][i] == "val" else np.nan for i in range(n)]
    ps = inp.get("ps") or ["val"] * n
    pred = [float(env.get(f"q{i}", 0.0)) if ps[i] == "val" else np.nan for i in range(n)]
    df = pd.DataFrame({"observed": obs, "predicted": pred}, index=idx)
    base = types.SimpleNamespace(n=float(env["bn"]), n_prime=float(env["bnp"]), ddof=5.0, cvrmse_autocorr_adj=float(env["bcv"]))
    conf, tail = inp.get("conf", 0.9), inp.get("tail", 2)
    rm = mt.ReportingMetrics.model_construct(baseline_metrics=base, reporting_df=df, data_frequency=inp["freq"], confidence_level=conf, t_tail=tail)
    fin = [(o, q) for o, q in zip(obs, pred) if np.isfinite(o) and np.isfinite(q)]
    sav = sum(q for _, q in fin) - sum(o for o, _ in fin)
    bad = abs(rm.savings - sav) > 1e-9 * max(1, abs(sav))
    # the library's own t quantile helper asked for 1 - confidence, the baseline's degrees of freedom, the configured tails
    from opendsm.common.utils import t_stat as _t_stat
    want_t = float(_t_stat(1 - conf, 5.0, tail=tail))
    got_t = float(rm.t_stat)
    if abs(got_t - want_t) > 1e-9 * max(1.0, abs(want_t)):
        return True, f"t_stat {got_t} for confidence {conf}, {tail} tail(s), 5 degrees of freedom; the t quantile is {want_t}"
    if fin and inp["freq"] in ("daily", "billing"):
        fi = [i for i, (o, q) in enumerate(zip(obs, pred)) if np.isfinite(o) and np.isfinite(q)]
        M = len(idx[fi].month.unique())
        k = float(np.polyval([-0.00024, 0.03535, 1.00286] if inp["freq"] == "daily" else [-0.00022, 0.03306, 0.94054], M))
        m_ = len(fi)
        want_u = k * sum(q for _, q in fin) * want_t * float(env["bcv"]) * np.sqrt(float(env["bn"]) / (m_ * float(env["bnp"])) * (1 + 2 / float(env["bnp"])))
        got_u = rm.total_savings_uncertainty
        if got_u is not None and np.isfinite(want_u) and abs(float(got_u) - want_u) > 1e-9 * max(1.0, abs(want_u)):
            return True, f"total_savings_uncertainty {got_u}, ASHRAE-14 formula with {M} calendar month(s) gives {want_u}"
    return bad, f"savings {rm.savings} vs {sav}"


def replay_daily_error(inp):
    env = inp["env"]
    n = inp["n"]
    resid = np.array([float(env[f"r{i}"]) for i in range(n)])
    obs = np.array([float(env[f"o{i}"]) for i in range(n)])
    w, R, M, CV, PN = daily_error(resid, obs, float(env["wsse"]))
    rm = float(np.sqrt(np.mean(resid ** 2)))
    bad = abs(R - rm) > 1e-9 * max(1, rm) or abs(M - np.mean(np.abs(resid))) > 1e-9
    mo = np.mean(obs)
    if abs(mo) > 1e-12:
        bad = bad or abs(CV * mo - rm) > 1e-9 * max(1, rm)
    return bool(bad), f"RMSE {R} MAE {M} CVRMSE {CV} PNRMSE {PN} for resid={resid}, obs={obs}"


def gate_run(vals):
    import types as _t
    import opendsm.eemeter.models.hourly.model as hm
    m = object.__new__(hm.HourlyModel)
    m.baseline_metrics = _t.SimpleNamespace(cvrmse=vals["cvrmse"], cvrmse_adj=vals["cvrmse_adj"], pnrmse=vals["pnrmse"], pnrmse_adj=vals["pnrmse_adj"])
    m.settings = _t.SimpleNamespace(cvrmse_threshold=vals["thr_c"], pnrmse_threshold=vals["thr_p"])
    return bool(m._model_fit_is_acceptable())


def replay_gate(inp):
    v = {k: (None if k in inp.get("nones", []) else float(inp["env"][k])) for k in ("cvrmse", "cvrmse_adj", "pnrmse", "pnrmse_adj", "thr_c", "thr_p")}
    ok = gate_run(v)
    want = (v["cvrmse_adj"] is not None and v["cvrmse_adj"] < v["thr_c"]) or (v["pnrmse_adj"] is not None and v["pnrmse_adj"] < v["thr_p"])
    return ok != want, f"_model_fit_is_acceptable={ok} for {v}; a model is acceptable iff cvrmse_adj < threshold or pnrmse_adj < threshold"


def run_gate(case):
    names = ["cvrmse", "cvrmse_adj", "pnrmse", "pnrmse_adj", "thr_c", "thr_p"]
    case.inputs = [z3.Real(n) for n in names]

    def run():
        nones = [k for k in ("cvrmse_adj", "pnrmse_adj") if F.choose(f"{k}_none", [False, True])]
        v = {k: (None if k in nones else real(k)) for k in names}
        return nones, gate_run(v)

    paths = case.explore(run)
    for p in paths:
        if p.outcome != "ret":
            case.prove(p, False, "hourly fit gate does not raise", replay=("gate", lambda mdl: dict(nones=[], env=model_env(mdl, case.inputs))))
            continue
        nones, ok = p.value
        rp = ("gate", (lambda n: lambda mdl: dict(nones=n, env=model_env(mdl, case.inputs)))(nones))
        a = z3.BoolVal(False) if "cvrmse_adj" in nones else z3.Real("cvrmse_adj") < z3.Real("thr_c")
        b = z3.BoolVal(False) if "pnrmse_adj" in nones else z3.Real("pnrmse_adj") < z3.Real("thr_p")
        case.prove(p, z3.BoolVal(ok) == z3.Or(a, b), "hourly poor fit <=> misses both the adjusted CVRMSE and the adjusted PNRMSE threshold (undefined never passes)", replay=rp)
    case.sample(dict(check="HourlyModel._model_fit_is_acceptable", paths=len(paths)))


# ----------------------------------------------------------------- hourly: which rows and which parameter count reach the metrics

HF_ROWS = 2
HF_FLAGS = ["interpolated_temperature", "interpolated_observed", "interpolated_ghi"]


def hourly_fit_run(kind, flags, coef, intercept, obs, pred):
    """the real HourlyModel._fit / _adaptive_fit with the numerics stubbed: feature preparation, ElasticNet.fit and
    _predict are stand-ins; BaselineMetrics is a recorder.  Returns (rows handed to the metrics, parameter count)."""
    import opendsm.eemeter.models.hourly.model as hm
    rec = {}

    class _EN:
        coef_ = coef
        intercept_ = intercept

        def fit(self, X, y, sample_weight=None):
            rec["fit"] = True

        def predict(self, X):
            return X

    class _BM:
        def __init__(self, df=None, num_model_params=None):
            rec["df"], rec["p"] = df, num_model_params

    idx = pd.date_range("2021-03-01", periods=HF_ROWS, freq="h", tz="UTC")
    cols = {"observed": obs, "predicted": pred}
    for name in HF_FLAGS:
        if name in flags:
            cols[name] = np.array(flags[name], dtype=bool)
    frame = pd.DataFrame(cols, index=idx)
    m = object.__new__(hm.HourlyModel)
    m._model = _EN()
    m._prepare_features = lambda df: ("X_fit", "X_predict", "y_fit")
    m._predict = lambda data, X=None: frame
    m.settings = types.SimpleNamespace(elasticnet=types.SimpleNamespace(adaptive_weight_max_iter=0, adaptive_weight_tol=1e-4))
    data = types.SimpleNamespace(df=frame, tz="UTC")
    with patched(hm, BaselineMetrics=_BM):
        (m._fit if kind == "plain" else m._adaptive_fit)(data)
    return rec["df"], rec["p"], m


def replay_hourly_fit(inp):
    env = inp["env"]
    n = HF_ROWS
    flags = {k: v for k, v in inp["flags"].items()}
    coef = np.array([float(env[f"c{i}"]) for i in range(2)])
    icpt = np.float64(env["c_int"])
    obs = np.array([float(env[f"o{i}"]) for i in range(n)])
    pred = np.array([float(env[f"q{i}"]) for i in range(n)])
    df, p, m = hourly_fit_run(inp["kind"], flags, coef, icpt, obs, pred)
    keep = [i for i in range(n) if not any(flags[k][i] for k in flags)]
    want_p = int(np.count_nonzero(coef)) + int(icpt != 0)
    got_rows = [int((t - pd.Timestamp("2021-03-01", tz="UTC")) / pd.Timedelta(hours=1)) for t in df.index]
    bad = got_rows != keep or p != want_p or not np.array_equal(df["observed"].to_numpy(), obs[keep]) or not np.array_equal(df["predicted"].to_numpy(), pred[keep])
    return bool(bad), f"metrics received rows {got_rows} (expected the non-interpolated rows {keep}) and num_model_params={p} (expected {want_p}) for flags {flags}, coef {coef.tolist()}, intercept {float(icpt)}"


def run_hourly_fit(case, kind):
    n = HF_ROWS
    names = [f"o{i}" for i in range(n)] + [f"q{i}" for i in range(n)] + ["c0", "c1", "c_int"]
    case.inputs = [z3.Real(x) for x in names]

    def run():
        present = ["interpolated_temperature", "interpolated_observed"] + (["interpolated_ghi"] if F.choose("has_ghi", [False, True]) else [])
        flags = {k: [F.choose(f"{k}_{i}", [False, True]) if (i == 0 or k != "interpolated_ghi") else False for i in range(n)] for k in present}
        coef = np.empty(2, dtype=object)
        for i in range(2):
            coef[i] = real(f"c{i}")
        icpt = real("c_int")
        obs = SymArray([real(f"o{i}") for i in range(n)])
        pred = SymArray([real(f"q{i}") for i in range(n)])
        df, p, m = hourly_fit_run(kind, flags, coef, icpt, obs, pred)
        return flags, df, p, m.is_fitted, m.baseline_timezone

    with patched(__import__("opendsm.eemeter.models.hourly.model", fromlist=["x"]), np=symnp):
        paths = case.explore(run)
    t0 = pd.Timestamp("2021-03-01", tz="UTC")
    for p in paths:
        rp = ("hourly_fit", lambda mdl: dict(kind=kind, flags={}, env=model_env(mdl, case.inputs)))
        if p.outcome != "ret":
            case.prove(p, False, "hourly fit tail (metrics on the baseline prediction) does not raise", replay=rp)
            continue
        flags, df, cnt, fitted, tz = p.value
        rp = ("hourly_fit", (lambda fl: lambda mdl: dict(kind=kind, flags=fl, env=model_env(mdl, case.inputs)))(flags))
        case.twin(p)
        keep = [i for i in range(n) if not any(flags[k][i] for k in flags)]
        got_rows = [int((t - t0) / pd.Timedelta(hours=1)) for t in df.index]
        case.regime("hourly: interpolated row kept out of the metrics", len(keep) < n)
        case.prove(p, z3.BoolVal(got_rows == keep and fitted is True and tz == "UTC"), "hourly baseline metrics are computed on exactly the non-interpolated hours (any interpolated_ flag excludes the row)", replay=rp)
        if got_rows == keep:
            o, q = cells(df["observed"]), cells(df["predicted"])
            same = z3.And([zr(o[j]) == z3.Real(f"o{i}") for j, i in enumerate(keep)] + [zr(q[j]) == z3.Real(f"q{i}") for j, i in enumerate(keep)] + [z3.BoolVal(True)])
            case.prove(p, same, "hourly baseline metrics see the observed/predicted pair of each kept hour unchanged", replay=rp)
        want = sum((z3.If(z3.Real(c) != 0, 1, 0) for c in ("c0", "c1", "c_int")), z3.IntVal(0))
        got = cnt.e if hasattr(cnt, "e") else z3.IntVal(int(cnt))
        case.prove(p, got == want, "num_model_params == number of non-zero coefficients + non-zero intercept", replay=rp)
    case.sample(dict(check=f"HourlyModel.{'_fit' if kind == 'plain' else '_adaptive_fit'} metrics tail", paths=len(paths)))


# ----------------------------------------------------------------- hourly: a real fit (concrete), variants solver-chosen

HR_GAPS = {"none": (), "usage gap": (("observed", 100, 104),), "temperature gap": (("temperature", 500, 503),),
           "both": (("observed", 2000, 2006), ("temperature", 4000, 4002), ("observed", 4001, 4003))}


def replay_hourly_real(inp):
    """the stored baseline metrics of a fitted hourly model are the statistics of predict(baseline) over the hours that were
    measured (no interpolated_ flag), with the number of non-zero coefficients as parameter count; poor fit <=> both
    adjusted ratios miss their thresholds"""
    import logging
    logging.disable(logging.CRITICAL)
    from . import hourlyref as H
    m, data = H.fitted(noise=inp["noise"], gaps=HR_GAPS[inp["gaps"]], settings=(dict(elasticnet=dict(adaptive_weights=True, adaptive_weight_max_iter=3, adaptive_weight_tol=1e-4)) if inp["adaptive"] else None))
    out = m.predict(data, ignore_disqualification=True)
    bdf = data.df
    flagged = bdf[[c for c in bdf.columns if c.startswith("interpolated_")]].any(axis=1)
    p = int(np.count_nonzero(m._model.coef_) + np.count_nonzero(m._model.intercept_))
    ref = mt.BaselineMetrics(df=out.loc[~flagged], num_model_params=p)
    pr = []
    if int(flagged.sum()) == 0 and inp["gaps"] != "none":
        pr.append("the gaps of the scenario were not flagged as interpolated (scenario error)")
    for f in ("n", "rmse", "rmse_adj", "cvrmse", "cvrmse_adj", "pnrmse", "pnrmse_adj", "mae", "mbe", "r_squared", "n_prime"):
        a, b = getattr(m.baseline_metrics, f), getattr(ref, f)
        if not (a == b or (a is not None and b is not None and abs(a - b) <= 1e-12 * max(1.0, abs(b)))):
            pr.append(f"stored {f} = {a}, predict(baseline) over the {int((~flagged).sum())} measured hours gives {b}")
    poor = not ((ref.cvrmse_adj is not None and ref.cvrmse_adj < m.settings.cvrmse_threshold) or (ref.pnrmse_adj is not None and ref.pnrmse_adj < m.settings.pnrmse_threshold))
    has = any(w.qualified_name == "eemeter.model_fit_metrics" for w in m.disqualification)
    if has != poor:
        pr.append(f"poor-fit disqualification present={has}, but cvrmse_adj={ref.cvrmse_adj}, pnrmse_adj={ref.pnrmse_adj} (thresholds {m.settings.cvrmse_threshold}, {m.settings.pnrmse_threshold})")
    return bool(pr), "; ".join(pr[:3]), poor


def run_hourly_real(case):
    case.inputs = []

    def run():
        inp = dict(noise=F.choose("noise", [0.05, "spiky"]), gaps=F.choose("gaps", list(HR_GAPS)), adaptive=F.choose("adaptive", [False, True]))
        return inp, replay_hourly_real(inp)

    paths = case.explore(run)
    for p in paths:
        if p.outcome != "ret":
            case.rep["harness_errors"].append(f"real hourly fit raised {p.value!r}")
            continue
        inp, (bad, det, poor) = p.value
        label = "a fitted hourly model stores the statistics of predict(baseline) over the measured hours; poor fit <=> both adjusted ratios miss"
        if not case.ground(not bad, label):
            case.violation(label, "hourly_real", inp, det)
        case.regime("real hourly fit with interpolated hours", inp["gaps"] != "none")
        case.regime("real hourly fit that misses both thresholds", poor)
    case.sample(dict(entry="HourlyModel.fit (real, sklearn shim restored by the harness)", fits=len(paths)))


# ----------------------------------------------------------------- float conditioning (what the real-arithmetic model cannot see)

COND_LEVELS = {"kWh scale": (4.0e3, 300.0), "Wh scale": (2.5e7, 20.0), "flat load in Wh": (1.0e8, 8.0), "nearly constant": (3.0e8, 2.0)}


def replay_conditioning(inp):
    """the solver works over the reals; two formulas that are equal there can differ in float64 when the level of a series
    dwarfs its spread.  Ground check against exact rational arithmetic on such series (r_squared, rmse, mbe, cvrmse)."""
    from fractions import Fraction as Fr
    level, spread = COND_LEVELS[inp["level"]]
    rng = np.random.default_rng(inp["seed"])
    n = 60
    obs = level + spread * rng.standard_normal(n)
    pred = obs + 0.6 * spread * rng.standard_normal(n)
    bm = real_baseline(list(obs), list(pred), 2)
    o, q = [Fr(float(x)) for x in obs], [Fr(float(x)) for x in pred]
    mo, mq = sum(o) / n, sum(q) / n
    cov = sum((a - mo) * (b - mq) for a, b in zip(o, q))
    vo, vq = sum((a - mo) ** 2 for a in o), sum((b - mq) ** 2 for b in q)
    r2 = float(cov * cov / (vo * vq))
    sse = sum((a - b) ** 2 for a, b in zip(o, q))
    rmse = float(sse / n) ** 0.5
    want = dict(r_squared=r2, rmse=rmse, mbe=float(sum(a - b for a, b in zip(o, q)) / n), cvrmse=rmse / float(mo))
    pr = []
    for f, w in want.items():
        g = getattr(bm, f)
        if g is None or abs(float(g) - w) > 1e-7 * max(1.0, abs(w)):
            pr.append(f"{f} = {g}, exact arithmetic gives {w} (level {level:g}, spread {spread:g}, n={n})")
    return bool(pr), "; ".join(pr)


REPLAY_COND = replay_conditioning


def run_conditioning(case):
    case.inputs = []

    def run():
        inp = dict(level=F.choose("level", list(COND_LEVELS)), seed=F.choose("seed", [1, 2, 3]))
        return inp, replay_conditioning(inp)

    paths = case.explore(run)
    for p in paths:
        if p.outcome != "ret":
            case.rep["harness_errors"].append(f"conditioning scenario raised {p.value!r}")
            continue
        inp, (bad, det) = p.value
        label = "statistics of series whose level dwarfs their spread agree with exact rational arithmetic (float64 conditioning)"
        if not case.ground(not bad, label):
            case.violation(label, "conditioning", inp, det)
        case.regime("ill-conditioned series (level / spread > 1e7)", inp["level"] in ("flat load in Wh", "nearly constant"))
    case.sample(dict(check="float conditioning of BaselineMetrics", series=len(paths)))


# ----------------------------------------------------------------- CalTRACK-hourly ModelMetrics (concrete family, exact reference)

CT_SIGNS = ["all positive", "all negative (pure exporter)", "both signs (imports at night, exports at noon)", "with zero readings"]
CT_GAPS = ["complete", "usage gaps", "prediction gaps", "series of different lengths"]


def _ct_series(signs, gaps, seed):
    rng = np.random.default_rng(seed)
    n = 48
    idx = pd.date_range("2021-03-01", periods=n, freq="h", tz="UTC")
    base = 3.0 + np.round(2.0 * np.sin(np.arange(n) * np.pi / 12), 3) + np.round(rng.uniform(-0.5, 0.5, n), 3)
    if signs.startswith("all negative"):
        base = -base
    elif signs.startswith("both signs"):
        base = base - 3.5  # night import, noon export
    elif signs.startswith("with zero"):
        base[[3, 17, 30]] = 0.0
    obs = pd.Series(base, index=idx)
    pred = pd.Series(base + np.round(rng.uniform(-0.4, 0.4, n), 3), index=idx)
    if gaps == "usage gaps":
        obs.iloc[[5, 6, 40]] = np.nan
    elif gaps == "prediction gaps":
        pred.iloc[[0, 20]] = np.nan
    elif gaps == "series of different lengths":
        pred = pred.iloc[4:]
    return obs, pred


def replay_caltrack_metrics(inp):
    """the CalTRACK-hourly statistics class on the pairs both series have: lengths, RMSE and adjusted RMSE, the mean the
    ratios are normalised by (mean absolute usage, as the class documents for net-metered meters), CVRMSE, NMAE, NMBE, MAPE
    - against exact rational arithmetic"""
    from fractions import Fraction as Fr
    from opendsm.eemeter.models.hourly_caltrack.metrics import ModelMetrics
    obs, pred = _ct_series(inp["signs"], inp["gaps"], inp["seed"])
    p = inp["params"]
    mm = ModelMetrics(obs, pred, num_parameters=p)
    pairs = [(Fr(float(obs[t])), Fr(float(pred[t]))) for t in obs.index if t in pred.index and obs[t] == obs[t] and pred[t] == pred[t]]
    n = len(pairs)
    sse = sum((q - o) ** 2 for o, q in pairs)
    mabs = sum(abs(o) for o, _ in pairs) / n
    so = sum(o for o, _ in pairs)
    want = dict(merged_length=n, observed_length=int(obs.notna().sum()), predicted_length=int(pred.notna().sum()),
                observed_mean=float(mabs), predicted_mean=float(sum(abs(q) for _, q in pairs) / n),
                rmse=float(sse / n) ** 0.5, rmse_adj=float(sse / (n - p)) ** 0.5,
                cvrmse=float(sse / n) ** 0.5 / float(mabs), cvrmse_adj=float(sse / (n - p)) ** 0.5 / float(mabs),
                )
    if all(o >= 0 for o, _ in pairs):
        want["num_meter_zeros"] = sum(1 for o, _ in pairs if o == 0)
    if so != 0:
        want["nmbe"] = float(sum(q - o for o, q in pairs) / so)
        want["nmae"] = float(sum(abs(q - o) for o, q in pairs) / so)
    if all(o != 0 for o, _ in pairs):
        want["mape"] = float(sum(abs((q - o) / o) for o, q in pairs) / n)
    pr = []
    for f, w in want.items():
        g = getattr(mm, f)
        if g is None or g != g or abs(float(g) - w) > 1e-9 * max(1.0, abs(w)):
            pr.append(f"{f} = {g}, the formula on the {n} pairs gives {w}")
    js = mm.json()
    for f in ("cvrmse", "cvrmse_adj", "rmse", "observed_mean"):
        if js.get(f) is None or abs(js[f] - want[f]) > 1e-9 * max(1.0, abs(want[f])):
            pr.append(f"json()[{f!r}] = {js.get(f)}, expected {want[f]}")
    return bool(pr), "; ".join(pr[:4])


def run_caltrack_metrics(case):
    case.inputs = []

    def run():
        inp = dict(signs=F.choose("signs", CT_SIGNS), gaps=F.choose("gaps", CT_GAPS), seed=F.choose("seed", [1, 2]), params=F.choose("params", [1, 5]))
        return inp, replay_caltrack_metrics(inp)

    paths = case.explore(run)
    for p in paths:
        if p.outcome != "ret":
            case.rep["harness_errors"].append(f"CalTRACK metrics scenario raised {p.value!r}")
            continue
        inp, (bad, det) = p.value
        label = "CalTRACK-hourly ModelMetrics: lengths, RMSE, adjusted RMSE, normalising mean, CVRMSE, NMAE, NMBE, MAPE equal the formulas on the pairs both series have"
        if not case.ground(not bad, label):
            case.violation(label, "caltrack_metrics", inp, det)
        case.regime("usage of both signs", inp["signs"].startswith("both"))
        case.regime("series of different lengths", inp["gaps"].startswith("series of"))
    case.sample(dict(check="ModelMetrics against exact rational arithmetic", series=len(paths)))



# ----------------------------------------------------------------- the statistics a model reports are its own

def replay_objects(inp):
    """model.error of a fitted daily/billing model is the statistic of ITS fit: fitting another model object (or creating one)
    leaves it alone, and an unfitted object reports NaN (real fit/_fit/_get_error_metrics, optimiser stand-ins as in C02)"""
    from . import c02, c04
    pr = [x for x in c02.interleave_scenario(inp["fam"], inp["poor_a"], inp["poor_b"], inp["predict_between"]) if "error" in x]
    fresh = c04.FAM[inp["fam"]][0]()
    if not all(v != v for v in fresh.error.values()):
        pr.append(f"a model object that was never fitted reports error metrics {dict(fresh.error)}")
    return bool(pr), "; ".join(pr[:3])


REPLAY_OBJECTS = replay_objects


def run_objects(case, fam):
    case.inputs = []

    def run():
        inp = dict(fam=fam, poor_a=F.choose("poor_a", [False, True]), poor_b=F.choose("poor_b", [False, True]), predict_between=F.choose("predict_between", [False, True]))
        return inp, replay_objects(inp)

    paths = case.explore(run)
    for p in paths:
        if p.outcome != "ret":
            case.rep["harness_errors"].append(f"two-object scenario raised {p.value!r}")
            continue
        inp, (bad, det) = p.value
        label = "the fit statistics a model object reports are those of its own fit (another object's fit does not change them; an unfitted object reports none)"
        if not case.ground(not bad, label):
            case.violation(label, "objects", inp, det)
        case.regime("two model objects fitted in one process")
    case.sample(dict(family=fam, histories=len(paths)))


# ----------------------------------------------------------------- second engine: CrossHair on the pure-Python leaves

XH_SRC = '''
import types
from typing import Optional
import opendsm.common.metrics as mt
import opendsm.eemeter.models.hourly.model as hm


def twin_safe_divide(num: float, den: float) -> Optional[float]:
    """
    pre: -1e6 < num < 1e6 and -1e6 < den < 1e6
    pre: not (den <= 0.001 and num <= 0.01)
    post: (_ is None) == (den <= 0.001)
    """
    return mt._safe_divide(num, den)


def twin_safe_divide__post(res, num, den):
    return (res is None) == (den <= 0.001) and (res is None or res == num / den)


def twin_gate(c: Optional[float], p: Optional[float], tc: float, tp: float) -> bool:
    """
    pre: (c is None or -1e6 < c < 1e6) and (p is None or -1e6 < p < 1e6) and 0 < tc < 100 and 0 < tp < 100
    post: _ == ((c is not None and c < tc) or (p is not None and p < tp))
    """
    m = object.__new__(hm.HourlyModel)
    m.baseline_metrics = types.SimpleNamespace(cvrmse_adj=c, pnrmse_adj=p, cvrmse=None, pnrmse=None)
    m.settings = types.SimpleNamespace(cvrmse_threshold=tc, pnrmse_threshold=tp)
    return bool(m._model_fit_is_acceptable())


def twin_gate__post(res, c, p, tc, tp):
    return res == ((c is not None and c < tc) or (p is not None and p < tp))
'''
XH_LABELS = {"twin_safe_divide": "CrossHair: _safe_divide reports a number exactly for a safely positive denominator (outside region C16-safe-divide)",
             "twin_gate": "CrossHair: hourly model acceptable <=> adjusted CVRMSE or adjusted PNRMSE below its threshold (undefined never passes)"}


def replay_xhair(inp):
    from symv.xhair import concrete_check
    return concrete_check(XH_SRC, inp["call"])


def run_crosshair(case):
    from symv.xhair import run_twins, concrete_check
    res = run_twins(XH_SRC, list(XH_LABELS), per_condition_timeout=40 if case.tier == "quick" else 90)
    for fn, r in res.items():
        label = XH_LABELS[fn]
        if r["verdict"] == "refuted":
            try:
                bad, detail = concrete_check(XH_SRC, r["call"])
            except Exception as ex:
                bad, detail = False, f"replay failed: {ex!r}"
            if bad:
                case.ground(False, label)
                case.violation(label, "xhair", dict(call=r["call"]), detail)
            else:
                case.rep["nonreproducing"].append(dict(label=label, inputs=dict(call=r["call"]), detail=detail))
        elif r["verdict"] == "confirmed":
            case.ground(True, label)
        else:
            case.note(f"CrossHair inconclusive for {fn}: {r['raw'][-160:]}")
        case.sample(dict(engine="crosshair 0.0.110", condition=fn, verdict=r["verdict"], wall_s=r["wall_s"]))
    # secondary evidence: an inconclusive CrossHair run (time budget on a loaded machine) must not fail the check
    if any(r["verdict"] == "confirmed" for r in res.values()):
        case.regime("CrossHair confirmed a leaf contract over all paths")
    else:
        case.note("CrossHair confirmed no contract within its time budget (inconclusive second opinion)")
    case.rep["paths"] += len(res)


REPLAY = {"caltrack_metrics": replay_caltrack_metrics, "objects": replay_objects, "conditioning": replay_conditioning, "hourly_real": (lambda inp: replay_hourly_real(inp)[:2]), "xhair": replay_xhair, "hourly_fit": replay_hourly_fit, "gate": replay_gate, "baseline": replay_baseline, "safe_divide": replay_safe_divide, "reporting": replay_reporting, "daily_error": replay_daily_error}


def daily_error(resid, obs, wsse):
    m = object.__new__(dm.DailyModel)
    k = len(resid)
    a = k // 2
    mk = lambda r, o, w: types.SimpleNamespace(wSSE=w, N=len(r), resid=r, obs=o)
    m.fit_components = {"fw-su": mk(resid[:a], obs[:a], wsse), "fw-sh_wi": mk(resid[a:], obs[a:], 0.0)}
    return m._get_error_metrics("fw-su__fw-sh_wi")


# ----------------------------------------------------------------- symbolic runs

def run_case(case: Case, name: str):
    kind, n = name.split("/")[:2]
    n = int(n) if n.isdigit() else n
    if kind == "baseline":
        return run_baseline(case, n, name.split("/")[2])
    if kind == "reporting":
        return run_reporting(case, n)
    if kind == "safe_divide":
        return run_safe_divide(case)
    if kind == "gate":
        return run_gate(case)
    if kind == "hourly_fit" and name.endswith("/real"):
        return run_hourly_real(case)
    if kind == "hourly_fit":
        return run_hourly_fit(case, name.split("/")[1])
    if kind == "crosshair":
        return run_crosshair(case)
    if kind == "conditioning":
        return run_conditioning(case)
    if kind == "caltrack_metrics":
        return run_caltrack_metrics(case)
    if kind == "objects":
        return run_objects(case, name.split("/")[1])
    return run_daily_error(case, n)


def run_baseline(case, n, only):
    # each ratio field forks on its own numerator/denominator tests: one exploration (and case) per field keeps the path count additive
    groups = [("core", CORE)] + [(f, [f, RATIOS[f][0]]) for f in RATIOS] + [("r_squared_adj", ["r_squared", "r_squared_adj", "ddof"])]
    for gname, fields in groups:
        if gname == only:
            _run_baseline_group(case, n, gname, fields)
    if only == "core":
        case.regime("ddof clipped to 1", case.reach("d", [z3.Int("p") >= n]) is not None)


def _run_baseline_group(case, n, gname, fields):
    case.inputs = [z3.Real(f"o{i}") for i in range(n)] + [z3.Real(f"q{i}") for i in range(n)] + [z3.Int("p"), z3.Real("rho"), z3.Real("r_xy")]

    def run():
        eng = E.cur()
        eng.assume(z3.Int("p") >= 1)
        obs, os_ = F.sym_cells("o", n)
        pred, ps = F.sym_cells("q", n)
        bm = build_baseline(n, obs, pred, SInt(z3.Int("p")))
        try:
            vals = collect(bm, fields)
        except (ValueError, IndexError, ZeroDivisionError) as ex:
            import traceback as _tb
            return os_, ps, None, f"{ex!r} at {_tb.extract_tb(ex.__traceback__)[-1][:3]}"
        return os_, ps, vals, None

    with _ctx():
        paths = case.explore(run)
    for p in paths:
        if p.outcome != "ret":
            case.rep["harness_errors"].append(f"metrics raised {p.value!r}")
            continue
        os_, ps, vals, err = p.value
        fin = [i for i in range(n) if os_[i] == "val" and ps[i] == "val"]
        case.regime("row dropped for NaN", len(fin) < n)
        rpf = lambda label: ("baseline", (lambda a, b, rs: lambda mdl: dict(n=n, label=label, os=a, ps=b, rho_state=rs, env=model_env(mdl, case.inputs)))(os_, ps, p.notes.get("rho")))
        if not fin:
            # no finite pair: metrics are undefined; nothing to claim beyond not reporting numbers
            continue
        if vals is None:
            case.note(f"{gname}: raised {err} with states {os_} {ps}")
            case.prove(p, False, "metrics computed when at least one finite pair exists", replay=rpf("n =="))
            continue
        case.twin(p)
        rows = [(z3.Real(f"o{i}"), z3.Real(f"q{i}")) for i in fin]
        got = {k: (None if is_undef(v) else zr(v)) for k, v in vals.items()}
        for k in FIELDS:
            got.setdefault(k, "absent")
        rho = z3.Real("rho") if p.notes.get("rho") == "val" else None
        rxy = z3.Real("r_xy") if p.notes.get("r_xy") == "val" else None
        case.regime("autocorrelation undefined", rho is None)
        pz = z3.Int("p")
        if gname == "core":
            for label, cl in baseline_claims(rows, pz, rho, rxy, got).items():
                case.prove(p, cl, label, replay=rpf(label))
        k = len(fin)
        ddof = z3.ToReal(z3.If(k - pz < 1, z3.IntVal(1), k - pz))
        # ratio fields
        osum = sum((o for o, _ in rows), z3.RealVal(0))
        mean = osum / k
        for f, (numf, denk) in RATIOS.items():
            if f != gname or got[numf] is None:
                continue
            den = mean if denk == "mean" else (got["obs_iqr"] if got["obs_iqr"] is not None else None)
            if den is None:
                continue
            case.prove(p, ratio_claim(got[f], got[numf], den), f"ratio:{f}: value*denominator == numerator when the denominator is safely positive, undefined otherwise",
                       replay=rpf(f"ratio:{f}"), exclude=[("C16-safe-divide", region_f(got[numf], den))])
            if got[f] is None:
                case.regime("ratio undefined (denominator not safely positive)")
        # adjusted r squared
        if gname == "r_squared_adj" and got["r_squared"] is not None:
            num = (1 - got["r_squared"]) * (k - 1)
            den = ddof - 1
            v = got["r_squared_adj"]
            cl = z3.And(den > z3.RealVal("1/1000"), (1 - v) * den == num) if v is not None else den <= z3.RealVal("1/1000")
            case.prove(p, cl, "r_squared_adj == 1 - (1-r2)(n-1)/(ddof-1), undefined when ddof-1 is not safely positive",
                       replay=rpf("r_squared_adj"), exclude=[("C16-safe-divide", region_f(num, den))])
        if len(case.rep["samples"]) < 2 and p.model is not None:
            case.sample(dict(group=gname, observed_states=os_, predicted_states=ps, witness=model_env(p.model, case.inputs)))


def run_safe_divide(case):
    num, den, md = z3.Real("num"), z3.Real("den"), z3.Real("md")
    case.inputs = [num, den, md]

    def run():
        E.cur().assume(md > 0)
        return mt._safe_divide(SReal(num), SReal(den), SReal(md))

    paths = case.explore(run)
    for p in paths:
        rp = ("safe_divide", lambda mdl: dict(env=model_env(mdl, case.inputs)))
        if p.outcome != "ret":
            case.prove(p, False, "_safe_divide does not raise", replay=rp)
            continue
        v = p.value
        case.twin(p)
        if is_undef(v):
            cl = den <= md
        else:
            cl = z3.And(den > md, zr(v) * den == num)
        case.prove(p, cl, "_safe_divide: number only for a safely positive denominator, and then numerator/denominator",
                   replay=rp, exclude=[("C16-safe-divide", z3.And(den <= md, num <= 10 * md))])
        case.sample(dict(result="undefined" if is_undef(v) else "number"))


def run_reporting(case, n):
    names = [f"o{i}" for i in range(n)] + [f"q{i}" for i in range(n)] + ["bn", "bnp", "bcv", "t"]
    case.inputs = [z3.Real(x) for x in names]
    freqs = ["hourly", "daily", "billing"]
    asked = []

    def _t(*a, **k):
        asked.append((a, dict(k)))
        return real("t")

    for freq in freqs:
        def run():
            eng = E.cur()
            del asked[:]
            conf, tail = 0.9, F.choose("tail", [2, 1])
            obs, os_ = F.sym_cells("o", n)
            pred, ps_ = F.sym_cells("q", n)  # a day without temperature has usage but no prediction
            idx = reporting_index(n, F.choose("span", ["days", "two-januaries"]))
            df = pd.DataFrame({"observed": SymArray(obs), "predicted": SymArray(pred)}, index=idx)
            for c in (z3.Real("bn") >= 1, z3.Real("bnp") > 0, z3.Real("t") > 0):
                eng.assume(c)
            base = types.SimpleNamespace(n=real("bn"), n_prime=real("bnp"), ddof=5.0, cvrmse_autocorr_adj=real("bcv"))
            rm = mt.ReportingMetrics.model_construct(baseline_metrics=base, reporting_df=df, data_frequency=freq, confidence_level=conf, t_tail=tail)
            out = dict(n=rm.n, savings=rm.savings, unc=rm.total_savings_uncertainty, fsu=rm.fsu, pt=rm.predicted_data_point_unc, idx=idx)
            return (os_, ps_), dict(out, conf=conf, tail=tail, asked=list(asked), span=("days" if idx[-1] - idx[0] < pd.Timedelta(days=30) else "two-januaries"))

        with _ctx(), patched(mt, t_stat=_t):
            paths = case.explore(run)
        for p in paths:
            if p.outcome != "ret":
                if isinstance(p.value, ValueError) and "at least one row" in str(p.value):
                    continue
                case.rep["harness_errors"].append(f"reporting metrics raised {p.value!r}")
                continue
            (os_, ps_), v = p.value
            fin = [i for i in range(n) if os_[i] == "val" and ps_[i] == "val"]
            rp = ("reporting", (lambda a, b, c, d, e: lambda mdl: dict(n=n, freq=freq, os=a, ps=b, conf=c, tail=d, span=e, env=model_env(mdl, case.inputs)))(os_, ps_, v["conf"], v["tail"], v["span"]))
            case.regime("reporting period touching the same calendar month in two years", v["span"] == "two-januaries")
            case.regime("reporting row with usage but no prediction", any(o == "val" and q == "nan" for o, q in zip(os_, ps_)))
            if v["asked"]:
                # the t quantile is a contract stub: what it is asked for is part of the statistic
                (a, k) = v["asked"][-1]
                alpha, dof = (list(a) + [None, None])[:2]
                tl = k.get("tail", a[2] if len(a) > 2 else 2)  # utils.t_stat defaults to two tails
                ok = alpha is not None and abs(float(alpha) - (1 - v["conf"])) < 1e-12 and float(dof) == 5.0 and int(tl) == v["tail"]
                case.prove(p, bool(ok), "the t quantile is taken at 1 - confidence level, the baseline's degrees of freedom and the configured number of tails", replay=rp)
                case.regime("one-tailed uncertainty", v["tail"] == 1)
            if not fin:
                continue
            case.twin(p)
            sav = sum((z3.Real(f"q{i}") - z3.Real(f"o{i}") for i in fin), z3.RealVal(0))
            psum = sum((z3.Real(f"q{i}") for i in fin), z3.RealVal(0))
            case.prove(p, z3.And(z3.BoolVal(v["n"] == len(fin)), zr(v["savings"]) == sav), "savings == sum(predicted) - sum(observed) over finite pairs; n == their number", replay=rp)
            m = len(fin)
            bn, bnp, bcv, t = z3.Real("bn"), z3.Real("bnp"), z3.Real("bcv"), z3.Real("t")
            M = len(v["idx"][fin].month.unique())  # months among the finite rows
            k = {"hourly": 1.26, "daily": float(np.polyval([-0.00024, 0.03535, 1.00286], M)), "billing": float(np.polyval([-0.00022, 0.03306, 0.94054], M))}[freq]
            from symv.proxies import rv
            kz = rv(k)
            if not is_undef(v["unc"]):
                u = zr(v["unc"])
                # u = k * E * t * cv * sqrt(n/(m n') (1 + 2/n'))  <=>  (u)^2 == (k E t cv)^2 * n/(m n') * (1+2/n') and sign(u) == sign(k E t cv)
                base = kz * psum * t * bcv
                case.prove(p, z3.And(u * u == base * base * (bn / (m * bnp)) * (1 + 2 / bnp), u * base >= 0),
                           "total savings uncertainty == ASHRAE-14 formula (t from the t quantile, frequency factor)", replay=rp)
                if not is_undef(v["fsu"]):
                    case.prove(p, zr(v["fsu"]) * sav == u, "fsu == uncertainty / savings", replay=rp)
                if not is_undef(v["pt"]):
                    q = zr(v["pt"])
                    from symv.proxies import rv as _rv
                    case.prove(p, q * _rv(float(np.sqrt(m))) == u, "per-point uncertainty == total / sqrt(n)", replay=rp)


def run_daily_error(case, n):
    names = [f"r{i}" for i in range(n)] + [f"o{i}" for i in range(n)] + ["wsse"]
    case.inputs = [z3.Real(x) for x in names]

    def run():
        E.cur().assume(z3.Real("wsse") >= 0)
        resid = symarr([real(f"r{i}") for i in range(n)])
        obs = symarr([real(f"o{i}") for i in range(n)])
        return daily_error(resid, obs, real("wsse"))

    with patched(dm, np=symnp):
        paths = case.explore(run)
    for p in paths:
        rp = ("daily_error", lambda mdl: dict(n=n, env=model_env(mdl, case.inputs)))
        if p.outcome != "ret":
            case.prove(p, False, "_get_error_metrics does not raise", replay=rp)
            continue
        w, R, M, CV, PN = p.value
        case.twin(p)
        r = [z3.Real(f"r{i}") for i in range(n)]
        o = [z3.Real(f"o{i}") for i in range(n)]
        sse = sum((x * x for x in r), z3.RealVal(0))
        if not is_undef(R):
            case.prove(p, z3.And(zr(R) >= 0, zr(R) * zr(R) * n == sse), "daily RMSE^2 * n == sum resid^2", replay=rp)
        if not is_undef(M):
            case.prove(p, zr(M) * n == sum((z3.If(x >= 0, x, -x) for x in r), z3.RealVal(0)), "daily MAE == mean |resid|", replay=rp)
        if not is_undef(w):
            case.prove(p, z3.And(zr(w) >= 0, zr(w) * zr(w) * n == z3.Real("wsse")), "daily wRMSE^2 * N == sum wSSE", replay=rp)
        if not is_undef(CV) and not is_undef(R):
            case.prove(p, zr(CV) * sum(o, z3.RealVal(0)) == zr(R) * n, "daily CVRMSE * mean(obs) == RMSE", replay=rp)
