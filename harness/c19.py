"""C19 - billing aggregation of predictions conserves totals.

Executed symbolically: BillingModel.predict (guards + aggregation block) with pandas' real resample machinery on
`symreal` columns.  The daily result is (i) an arbitrary frame (DailyModel._predict stubbed: every daily value and
NaN state symbolic) and (ii) the real DailyModel._predict on a stored flat/V-shaped model."""
from __future__ import annotations

import numpy as np
import pandas as pd
import z3

import opendsm.eemeter.models.billing.model as bmod
import opendsm.eemeter.models.daily.model as dm
from opendsm.eemeter.models.billing.model import BillingModel
from symv import engine as E
from symv.carriers import patched, symnp
from symv.case import Case, close
from symv.proxies import NAN, SReal, lift, model_env, real, to_real
from symv.symarray import SymArray, cells

from . import dailyframe as F
from . import dailyref as R
from .c05 import _billing_data

EXPLANATION = "C19: monthly / bi-monthly aggregation block of BillingModel.predict on symbolic daily results; totals across aggregation levels; argument catalogue."
BOUNDS = {"quick": dict(rows="6-8 daily rows on enumerated spans (month boundaries, gaps, partial months)", nan_rows=2, zones=["US/Pacific", "UTC", "+ Australia/Sydney, Asia/Tokyo, Europe/Berlin on one span each", "America/Asuncion and America/Havana across a clock change at local midnight on the 1st"]),
          "thorough": dict(rows="6-10 daily rows on enumerated spans", nan_rows=4, zones=["US/Pacific", "UTC", "Australia/Sydney", "Europe/London", "Asia/Tokyo", "Europe/Berlin", "Pacific/Auckland", "America/Asuncion", "America/Havana"])}
STUBS = ["(i) DailyModel._predict -> arbitrary daily frame (fresh symbols, solver-chosen NaN states)", "data object = BillingReportingData shell handing out the frame"]
MODELS_USED = ["symreal ExtensionArray reductions (sum/mean/first), symnp.sqrt/square/sum"]
ASSUMPTIONS = ["spans/timezones enumerated (catalogue), values and NaN states solver-quantified",
               "sqrt modelled by s>=0 and s*s==x"]
EXPECTED_REGIMES = ["bin with a NaN member", "empty middle bin", "temperature-only data", "bimonthly bin spanning two months"]
VAL_COLS = ["observed", "predicted", "heating_load", "cooling_load"]
ARGS_BAD = ["Monthly", "MONTHLY", "month", "bimonthly ", "weekly", "", "MS", "2MS", "daily", "billing"]
ARGS_NONE = [None, "none", "None", "NONE"]


def ENCODED():
    return [BillingModel.predict, dm.DailyModel._predict]


SPANS = {
    "boundary": ["2021-01-30", "2021-01-31", "2021-02-01", "2021-02-28", "2021-03-01", "2021-03-02"],
    "gap-month": ["2021-01-15", "2021-01-16", "2021-03-01", "2021-03-31", "2021-04-01", "2021-04-30"],
    "partial": ["2021-05-31", "2021-06-01", "2021-06-15", "2021-06-30", "2021-07-01", "2021-08-31", "2021-09-01"],
    "yearend": ["2020-11-30", "2020-12-01", "2020-12-31", "2021-01-01", "2021-01-31", "2021-02-01"],
    "dst": ["2021-03-13", "2021-03-14", "2021-03-15", "2021-03-31", "2021-04-01", "2021-10-31", "2021-11-01", "2021-11-07"],
    # zones that change their clocks at local midnight, here on the first day of a month: the day that labels the period
    # starts at 01:00 (America/Asuncion 2023-10-01) or its midnight happens twice (America/Havana 2020-11-01)
    "skipped-midnight": ["2023-09-29", "2023-09-30", "2023-10-01", "2023-10-02", "2023-10-31", "2023-11-01"],
    "repeated-midnight": ["2020-10-30", "2020-10-31", "2020-11-01", "2020-11-02", "2020-11-30", "2020-12-01"],
}
MIDNIGHT = [("skipped-midnight", "America/Asuncion"), ("repeated-midnight", "America/Havana")]


def span_index(span, zone):
    # a day whose midnight does not exist starts at its first instant; of a repeated midnight the first one starts the day
    return pd.DatetimeIndex([pd.Timestamp(d).tz_localize(zone, nonexistent="shift_forward", ambiguous=True) for d in SPANS[span]])


def cases(tier, seed):
    zones = ["US/Pacific", "UTC", "Australia/Sydney", "Europe/London"] if tier == "thorough" else ["US/Pacific", "UTC"]
    spans = [sp for sp in SPANS if "midnight" not in sp] if tier == "thorough" else ["boundary", "gap-month", "partial", "dst"]
    out = [f"agg|{sp}|{z}|{agg}|{obs}" for sp in spans for z in zones for agg in ("monthly", "bimonthly") for obs in ("obs", "noobs")]
    if tier != "thorough":  # zones east of UTC: local midnight falls on the previous UTC day (and month)
        out += ["agg|boundary|Australia/Sydney|monthly|obs", "agg|boundary|Australia/Sydney|bimonthly|noobs", "agg|yearend|Asia/Tokyo|monthly|obs",
                "agg|dst|Europe/Berlin|bimonthly|obs"]
    else:
        out += [f"agg|{sp}|{z}|{agg}|obs" for sp in spans for z in ("Asia/Tokyo", "Europe/Berlin", "Pacific/Auckland") for agg in ("monthly", "bimonthly")]
    out += [f"agg|{sp}|{z}|{agg}|{obs}" for sp, z in MIDNIGHT for agg, obs in ((("monthly", "obs"), ("bimonthly", "noobs")) if tier != "thorough" else
                                                                               [(a, o) for a in ("monthly", "bimonthly") for o in ("obs", "noobs")])]
    out += ["args|x|UTC|x|obs", "real|boundary|US/Pacific|monthly|obs"]
    return out


def bins(idx, agg):
    """independent oracle: calendar bins (local month starts) from the first row's month, step 1 or 2 months"""
    step = 1 if agg == "monthly" else 2
    first = idx.min()
    y, m = first.year, first.month
    out = []
    last = idx.max()
    while (y, m) <= (last.year, last.month):
        members = [i for i, t in enumerate(idx) if 0 <= (t.year - y) * 12 + (t.month - m) < step]
        out.append(((y, m), members))
        m += step
        while m > 12:
            m -= 12
            y += 1
    return out


def sym_daily_frame(idx, with_obs, nan_rows):
    """arbitrary daily prediction frame: every numeric cell symbolic; designated rows may be NaN in predicted
    (and the prediction-derived columns), observed and temperature independently"""
    n = len(idx)
    cols = {}
    st = {}
    names = ["temperature"] + (["observed"] if with_obs else []) + ["predicted", "predicted_unc", "heating_load", "cooling_load"]
    pstate = [F.choose(f"p_state{i}", ["val", "nan"]) if i in nan_rows else "val" for i in range(n)]
    # temperature may be missing on the first two days (a weather record that starts late: the whole first month of a
    # span without temperature) as well as on the first designated row
    tstate = [F.choose(f"t_state{i}", ["val", "nan"]) if (i in nan_rows[:1] or i in (0, 1)) else "val" for i in range(n)]
    ostate = [F.choose(f"o_state{i}", ["val", "nan"]) if i in nan_rows[:2] else "val" for i in range(n)]
    for c in names:
        states = {"temperature": tstate, "observed": ostate}.get(c, pstate)
        vals = [real(f"{c}{i}") if states[i] == "val" else NAN for i in range(n)]
        cols[c] = SymArray(vals)
        st[c] = states
    df = pd.DataFrame(cols, index=idx)
    df.insert(0, "season", ["winter"] * n)
    df["model_split"] = "fw-su_sh_wi"
    df["model_type"] = "tidd"
    return df, st


def float_daily_frame(idx, with_obs, st, env):
    n = len(idx)
    cols = {}
    for c, states in st.items():
        cols[c] = np.array([float(env.get(f"{c}{i}", 0.0)) if states[i] == "val" else np.nan for i in range(n)])
    df = pd.DataFrame(cols, index=idx)
    df.insert(0, "season", ["winter"] * n)
    df["model_split"] = "fw-su_sh_wi"
    df["model_type"] = "tidd"
    return df


def check_concrete(daily, agg_out, agg):
    pr = []
    idx = daily.index
    bs = bins(idx, agg)
    if len(agg_out) != len(bs):
        return [f"{len(agg_out)} rows for {len(bs)} calendar periods"]
    for (ym, members), (_, row) in zip(bs, agg_out.iterrows()):
        for c in VAL_COLS:
            if c not in daily.columns:
                continue
            exp = np.nansum(daily[c].to_numpy(dtype=float)[members]) if members else 0.0
            if not np.isclose(row[c], exp, rtol=1e-9, atol=1e-9):
                pr.append(f"{ym} {c}: {row[c]} != sum of days {exp}")
        t = daily["temperature"].to_numpy(dtype=float)[members]
        t = t[np.isfinite(t)]
        if len(t) and not np.isclose(row["temperature"], t.mean(), rtol=1e-9, atol=1e-9):
            pr.append(f"{ym} temperature {row['temperature']} != mean {t.mean()}")
        u = daily["predicted_unc"].to_numpy(dtype=float)[members]
        u = u[np.isfinite(u)]
        if not np.isclose(row["predicted_unc"], np.sqrt(np.sum(u ** 2)), rtol=1e-9, atol=1e-9):
            pr.append(f"{ym} predicted_unc {row['predicted_unc']} != root-sum-square {np.sqrt(np.sum(u ** 2))}")
    return pr


def replay_agg(inp):
    idx = span_index(inp["span"], inp["zone"])
    daily = float_daily_frame(idx, inp["with_obs"], inp["st"], inp["env"])
    m = F.model("single", BillingModel, tz=inp["zone"])
    m._predict = lambda df: daily.copy()
    given = daily[["temperature"]].copy()
    if inp["with_obs"]:
        given["observed"] = np.array([float(inp["env"].get(f"iobs{i}", 7.0 + i)) for i in range(len(idx))])
    try:
        out = m.predict(_billing_data(given), aggregation=inp["agg"])
    except Exception as ex:
        return True, f"{type(ex).__name__}: {ex}"
    pr = check_concrete(daily, out, inp["agg"])
    return bool(pr), "; ".join(pr[:4])


def replay_args(inp):
    idx = span_index("boundary", "UTC")
    daily = float_daily_frame(idx, True, {c: ["val"] * len(idx) for c in ["temperature", "observed", "predicted", "predicted_unc", "heating_load", "cooling_load"]},
                              {f"{c}{i}": float(i + 1) for c in ["temperature", "observed", "predicted", "predicted_unc", "heating_load", "cooling_load"] for i in range(len(idx))})
    m = F.model("single", BillingModel, tz="UTC")
    m._predict = lambda df: daily.copy()
    arg = inp["arg"]
    try:
        out = m.predict(_billing_data(daily[["temperature", "observed"]]), aggregation=arg)
    except ValueError as ex:
        return (inp["expect"] != "reject"), f"ValueError for {arg!r}"
    except Exception as ex:
        return True, f"{type(ex).__name__}: {ex} for {arg!r}"
    if inp["expect"] == "reject":
        return True, f"argument {arg!r} accepted, returned {len(out)} rows"
    if inp["expect"] == "daily":
        return (len(out) != len(idx)), f"{len(out)} rows for aggregation={arg!r}"
    return False, ""


REPLAY = {"agg": replay_agg, "args": replay_args}


def run_case(case: Case, name: str):
    kind, span, zone, agg, obs = name.split("|")
    if kind == "args":
        return run_args(case)
    if kind == "real":
        return run_real(case, span, zone, agg)
    with_obs = obs == "obs"
    idx = span_index(span, zone)
    n = len(idx)
    nan_rows = [1, n - 2, 0, 2][: (4 if case.tier == "thorough" else 2)]
    names = ["temperature", "observed", "predicted", "predicted_unc", "heating_load", "cooling_load"]
    case.inputs = [z3.Real(f"{c}{i}") for c in names for i in range(n)] + [z3.Real(f"iobs{i}") for i in range(n)]

    def run():
        eng = E.cur()
        daily, st = sym_daily_frame(idx, with_obs, nan_rows)
        for i in range(n):
            if st["predicted_unc"][i] == "val":
                eng.assume(z3.Real(f"predicted_unc{i}") >= 0)
        m = F.model("single", BillingModel, tz=zone)
        m._predict = lambda df: daily.copy()
        # the frame the data object hands out carries the usage as supplied (own symbols); the daily result's observed
        # column is the masked one: the aggregate must be taken from the result, not from the input
        given = daily[["temperature"]].copy()
        if with_obs:
            given["observed"] = SymArray([real(f"iobs{i}") for i in range(n)])
        data = _billing_data(given)
        out = m.predict(data, aggregation=agg)
        return daily, st, out

    with patched(bmod, np=symnp):
        paths = case.explore(run)
    bs = bins(idx, agg)
    case.regime("empty middle bin", any(not mem for _, mem in bs))
    if agg == "bimonthly":
        case.regime("bimonthly bin spanning two months", any(len({idx[i].month for i in mem}) > 1 for _, mem in bs))
    if not with_obs:
        case.regime("temperature-only data", len(paths) > 0)
    for p in paths:
        if p.outcome != "ret":
            ex = p.value
            rp0 = ("agg", lambda mdl: dict(span=span, zone=zone, agg=agg, with_obs=with_obs, st={c: ["val"] * n for c in (["temperature"] + (["observed"] if with_obs else []) + names[2:])}, env={}))
            case.prove(p, False, f"aggregation returns ({type(ex).__name__})", replay=rp0)
            continue
        daily, st, out = p.value
        rp = ("agg", (lambda s: lambda mdl: dict(span=span, zone=zone, agg=agg, with_obs=with_obs, st=s, env=model_env(mdl, case.inputs)))(st))
        case.twin(p)
        ok = len(out) == len(bs) and out.index.is_monotonic_increasing
        case.prove(p, ok, "one row per calendar period", replay=rp)
        if not ok:
            continue
        for c in VAL_COLS:
            if c not in daily.columns:
                continue
            dc = cells(daily[c])
            oc = cells(out[c])
            conj = []
            for (ym, mem), got in zip(bs, oc):
                exp = sum((to_real(lift(dc[i])) for i in mem if F.finite(dc[i])), z3.RealVal(0))
                conj.append(to_real(lift(got)) == exp if F.finite(got) else z3.BoolVal(False))
                if any(not F.finite(dc[i]) for i in mem):
                    case.regime("bin with a NaN member")
            case.prove(p, z3.And(*conj), f"{c} of every period == sum of its daily rows", replay=rp)
            tot = sum((to_real(lift(v)) for v in dc if F.finite(v)), z3.RealVal(0))
            atot = sum((to_real(lift(v)) for v in oc if F.finite(v)), z3.RealVal(0))
            case.prove(p, tot == atot, f"total {c} over the span is the same at daily and aggregated level", replay=rp)
        tc, ot = cells(daily["temperature"]), cells(out["temperature"])
        conj = []
        for (ym, mem), got in zip(bs, ot):
            pres = [to_real(lift(tc[i])) for i in mem if F.finite(tc[i])]
            if pres:
                conj.append(to_real(lift(got)) * len(pres) == sum(pres, z3.RealVal(0)) if F.finite(got) else z3.BoolVal(False))
            else:
                conj.append(z3.BoolVal(not F.finite(got)))
        case.prove(p, z3.And(*conj), "temperature of every period == mean of its daily rows", replay=rp)
        uc, ou = cells(daily["predicted_unc"]), cells(out["predicted_unc"])
        conj = []
        for (ym, mem), got in zip(bs, ou):
            ss = sum((to_real(lift(uc[i])) * to_real(lift(uc[i])) for i in mem if F.finite(uc[i])), z3.RealVal(0))
            if F.finite(got):
                g = to_real(lift(got))
                conj.append(z3.And(g >= 0, g * g == ss))
            else:
                conj.append(z3.BoolVal(False))
        case.prove(p, z3.And(*conj), "uncertainty of every period == root-sum-square of its daily rows", replay=rp)
        if len(case.rep["samples"]) < 2 and p.model is not None:
            case.sample(dict(span=SPANS[span], zone=zone, aggregation=agg, states=st, periods=[ym for ym, _ in bs]))


def run_args(case):
    """argument catalogue (ground): None-like -> daily rows, monthly/bimonthly accepted, anything else ValueError"""
    for a in ARGS_NONE:
        bad, det = replay_args(dict(arg=a, expect="daily"))
        if not case.ground(not bad, "aggregation None/'none' returns the daily rows"):
            case.violation("aggregation None/'none' returns the daily rows", "args", dict(arg=a, expect="daily"), det)
    for a in ("monthly", "bimonthly"):
        bad, det = replay_args(dict(arg=a, expect="accept"))
        if not case.ground(not bad, "monthly/bimonthly accepted"):
            case.violation("monthly/bimonthly accepted", "args", dict(arg=a, expect="accept"), det)
    for a in ARGS_BAD:
        bad, det = replay_args(dict(arg=a, expect="reject"))
        if not case.ground(not bad, "any other aggregation argument is rejected with ValueError"):
            case.violation("any other aggregation argument is rejected with ValueError", "args", dict(arg=a, expect="reject"), det)
    case.rep["paths"] += len(ARGS_NONE) + 2 + len(ARGS_BAD)
    case.rep["nontrivial_paths"] += len(ARGS_BAD)
    case.sample(dict(rejected=ARGS_BAD, none_like=ARGS_NONE))


def run_real(case, span, zone, agg):
    """composition with the real DailyModel._predict: totals at the three aggregation levels agree"""
    idx = span_index(span, zone)
    n = len(idx)
    case.inputs = [z3.Real(f"T{i}") for i in range(n)] + [z3.Real(f"o{i}") for i in range(n)]

    def run():
        m = F.model("single", BillingModel, tz=zone)
        T = [real(f"T{i}") for i in range(n)]
        O = [F.choose("o_state1", ["val", "nan"]) == "val" and real("o1") or NAN if i == 1 else real(f"o{i}") for i in range(n)]
        df = pd.DataFrame({"temperature": SymArray(T), "observed": SymArray(O)}, index=idx)
        outs = {}
        for a in (None, "monthly", "bimonthly"):
            outs[a] = m.predict(_billing_data(df), aggregation=a)
        return outs

    with R.symbolic_daily(), patched(bmod, np=symnp):
        paths = case.explore(run)
    for p in paths:
        if p.outcome != "ret":
            case.rep["harness_errors"].append(f"unexpected exception: {p.value!r}")
            continue
        outs = p.value
        for c in VAL_COLS:
            tots = []
            for a, o in outs.items():
                tots.append(sum((to_real(lift(v)) for v in cells(o[c]) if F.finite(v)), z3.RealVal(0)))
            case.prove(p, z3.And(tots[0] == tots[1], tots[1] == tots[2]), f"grand total of {c} equal for None/monthly/bimonthly (real _predict)")
