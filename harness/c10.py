"""C10 - sufficiency verdicts are exactly the published criteria.

Executed symbolically:
 (i)  every count-based _check_* method and the three check_sufficiency_baseline/_reporting drivers on a
      model_construct'ed criteria object whose day counts are symbolic ints (frame-based checks stubbed by free booleans);
 (ii) the frame-based computations on real pandas frames with symbolic columns:
      _compute_valid_meter_temperature_days (+ day_counts), _check_negative_meter_values, _check_no_data,
      _check_monthly_temperature_values_percentage / _check_monthly_meter_readings_percentage / _check_monthly_ghi_percentage
      (solver-chosen NaN states), _check_extreme_values (symbolic values, sorting network);
 (iii) a QF_FP lemma (thorough): for ints 0 <= k <= n <= 1000, float64 k/n < 0.9  <=>  10k < 9n;
 (iv) ground: the real data-class constructors accept well-formed daily/hourly/billing frames."""
from __future__ import annotations

import contextlib

import numpy as np
import pandas as pd
import z3

import opendsm.eemeter.common.sufficiency_criteria as sc
from symv import engine as E
from symv.carriers import patched, symnp
from symv.case import Case
from symv.proxies import NAN, SBool, SInt, SReal, integer, is_nan, lift, model_env, real, to_real
from symv.symarray import SymArray, cells

from . import dailyframe as F
from .c14 import FloatLike

EXPLANATION = "C10: count thresholds (span 329-365, 90% rules) with symbolic counts; frame-based criteria with symbolic cells; drivers append exactly the violated criteria."
BOUNDS = {"quick": dict(counts="n_days_total, n_valid_* any ints in [-5, 800]", frame_rows="4-6 rows", fp_lemma="not run"),
          "thorough": dict(counts="same", frame_rows="4-8 rows", fp_lemma="k/n < 0.9 for 0<=k<=n<=1000 in QF_FP")}
STUBS = ["criteria object built with model_construct; in the driver cases the frame-based checks are stubs appending a marker when a free boolean is set",
         "builtin float/int inside sufficiency_criteria -> identity on symbolic values", "pandas Series.median/quantile on symreal -> sorting-network model"]
MODELS_USED = ["symreal ExtensionArray", "symnp.quantile"]
ASSUMPTIONS = ["floats as reals: n_valid/float(n_total) < 0.9 is modelled as 10*n_valid < 9*n_total (justified for float64 by the QF_FP lemma, thorough tier)",
               "end-to-end acceptance of arbitrary well-formed frames is checked on an enumerated catalogue only (structure is not solver-quantified)",
               "frequency detection and _check_extreme_values on year-long data are outside the claim"]
EXPECTED_REGIMES = ["span below 329", "span above 365", "exactly 90% valid days", "just under 90%", "negative gas usage", "negative usage on a day without temperature", "interpolated temperature hour", "last supplied days lack usage and temperature", "month under 90% temperature", "extreme value flagged"]
FAMS = {"daily": sc.DailySufficiencyCriteria, "billing": sc.BillingSufficiencyCriteria, "hourly": sc.HourlySufficiencyCriteria}
P = "eemeter.sufficiency_criteria."


def ENCODED():
    S = sc.SufficiencyCriteria
    return [S._check_baseline_length_daily_billing_model, S._check_valid_days_percentage, S._check_valid_meter_readings_percentage,
            S._check_valid_temperature_values_percentage, S._compute_valid_meter_temperature_days, S._check_negative_meter_values, S._check_no_data,
            S._check_monthly_temperature_values_percentage, S._check_extreme_values, sc.HourlySufficiencyCriteria._check_monthly_meter_readings_percentage,
            sc.HourlySufficiencyCriteria._check_monthly_ghi_percentage, sc.DailySufficiencyCriteria.check_sufficiency_baseline,
            sc.DailySufficiencyCriteria.check_sufficiency_reporting, sc.BillingSufficiencyCriteria.check_sufficiency_baseline,
            sc.BillingSufficiencyCriteria.check_sufficiency_reporting, sc.HourlySufficiencyCriteria.check_sufficiency_baseline,
            sc.HourlySufficiencyCriteria.check_sufficiency_reporting]


def cases(tier, seed):
    out = [f"driver/{f}/{r}" for f in FAMS for r in ("baseline", "reporting")]
    out += [f"frame/valid-days/{k}/{r}" for k in ("daily", "billing", "hourly") for r in ("baseline", "reporting")]
    out += ["frame/negative", "frame/monthly", "frame/extreme", "ground/constructors", "frame/hourly-sdf", "frame/edges"]
    if tier == "thorough":
        out.append("fp/ratio")
    return out


_ident = lambda x: x


@contextlib.contextmanager
def sym_module():
    with patched(sc, float=FloatLike, int=lambda x: x if isinstance(x, SReal) else int(x), np=symnp):
        yield


def mk(cls, **kw):
    base = dict(data=None, requested_start=None, requested_end=None, num_days=365, min_fraction_daily_coverage=0.9,
                min_fraction_hourly_temperature_coverage_per_period=0.9, is_reporting_data=False, is_electricity_data=True,
                disqualification=[], warnings=[], n_days_total=None, n_valid_meter_value_days=None, n_valid_days=None, n_valid_temperature_days=None)
    base.update(kw)
    # model_construct still runs model_post_init (which derives the counts from the frame): bypass it, the harness
    # sets the counts / calls the compute methods explicitly
    with patched(sc.SufficiencyCriteria, model_post_init=lambda self, ctx: None):
        return cls.model_construct(**base)


FRAME_CHECKS = {"_check_no_data": "no_data", "_check_negative_meter_values": "negative_meter_values",
                "_check_monthly_temperature_values_percentage": "missing_monthly_temperature_data",
                "_check_monthly_meter_readings_percentage": "missing_monthly_meter_data", "_check_monthly_ghi_percentage": "missing_monthly_ghi_data",
                "_check_extreme_values": "WARN:extreme_values_detected", "_check_estimated_meter_values": None}


def run_driver(fam, role, counts, flags):
    """run the real driver with count-based checks real and frame-based checks stubbed by `flags` (name -> bool)"""
    from opendsm.eemeter.common.warnings import EEMeterWarning
    cls = FAMS[fam]
    called = []

    class Sub(cls):
        pass
    for meth, tag in FRAME_CHECKS.items():
        if not hasattr(cls, meth):
            continue

        def stub(self, _m=meth, _t=tag):
            called.append(_m)
            if _t is None:
                return
            # mimic the guards that live inside the real frame-based checks
            if _m == "_check_negative_meter_values" and (self.is_reporting_data or self.is_electricity_data):
                return
            if _m in ("_check_monthly_meter_readings_percentage", "_check_extreme_values") and self.is_reporting_data:
                return
            if flags.get(_m):
                w = EEMeterWarning(qualified_name=P + _t.replace("WARN:", ""), description="stub", data={})
                (self.warnings if _t.startswith("WARN:") else self.disqualification).append(w)
        setattr(Sub, meth, stub)
    obj = mk(Sub, is_reporting_data=(role == "reporting"), is_electricity_data=flags.get("electric", True), **counts)
    if role == "baseline":
        obj.check_sufficiency_baseline()
    else:
        obj.check_sufficiency_reporting()
    return [w.qualified_name for w in obj.disqualification], [w.qualified_name for w in obj.warnings], called


def expected_dq(fam, role, cz, flags):
    """independent statement of the published criteria: name -> z3 Bool (violated)"""
    nt = cz["n_days_total"]
    under = lambda k: z3.Or(nt <= 0, 10 * k < 9 * nt)
    exp = {}
    base = role == "baseline"
    exp[P + "too_many_days_with_missing_data"] = under(cz["n_valid_days"])
    exp[P + "too_many_days_with_missing_temperature_data"] = under(cz["n_valid_temperature_days"])
    exp[P + "too_many_days_with_missing_meter_data"] = under(cz["n_valid_meter_value_days"]) if base else z3.BoolVal(False)
    exp[P + "incorrect_number_of_total_days"] = z3.Or(nt > 365, nt < 329) if base else z3.BoolVal(False)
    exp[P + "no_data"] = z3.BoolVal(bool(flags.get("_check_no_data")))
    exp[P + "negative_meter_values"] = z3.BoolVal(bool(base and not flags.get("electric", True) and flags.get("_check_negative_meter_values")))
    exp[P + "missing_monthly_temperature_data"] = z3.BoolVal(bool(flags.get("_check_monthly_temperature_values_percentage")))
    exp[P + "missing_monthly_meter_data"] = z3.BoolVal(bool(fam == "hourly" and base and flags.get("_check_monthly_meter_readings_percentage")))
    exp[P + "missing_monthly_ghi_data"] = z3.BoolVal(bool(fam == "hourly" and flags.get("_check_monthly_ghi_percentage")))
    return exp


COUNTS = ["n_days_total", "n_valid_days", "n_valid_meter_value_days", "n_valid_temperature_days"]


def replay_driver(inp):
    fam, role, flags = inp["fam"], inp["role"], inp["flags"]
    counts = {k: int(inp["env"][k]) for k in COUNTS}
    dq, warns, called = run_driver(fam, role, counts, flags)
    cz = {k: z3.IntVal(v) for k, v in counts.items()}
    exp = {k: z3.is_true(z3.simplify(v)) for k, v in expected_dq(fam, role, cz, flags).items()}
    want = sorted(k for k, v in exp.items() if v)
    bad = sorted(set(dq)) != want or len(dq) != len(set(dq)) or any("extreme" in d for d in dq)
    return bad, f"{fam} {role} counts={counts} flags={flags}: reported {sorted(dq)}, criteria violated {want}"


def run_driver_case(case, fam, role):
    cz = {k: z3.Int(k) for k in COUNTS}
    case.inputs = list(cz.values())

    def run():
        eng = E.cur()
        for v in cz.values():
            eng.assume(z3.And(v >= -5, v <= 800))
        flags = {m: F.choose(f"f{m}", [False, True]) for m in ("_check_no_data", "_check_negative_meter_values", "_check_monthly_temperature_values_percentage")}
        if fam == "hourly":
            flags["_check_monthly_meter_readings_percentage"] = F.choose("fmm", [False, True])
            flags["_check_monthly_ghi_percentage"] = F.choose("fghi", [False, True])
        flags["_check_extreme_values"] = F.choose("fext", [False, True])
        flags["electric"] = F.choose("electric", [True, False])
        counts = {k: SInt(v) for k, v in cz.items()}
        return flags, run_driver(fam, role, counts, flags)

    with sym_module():
        paths = case.explore(run)
    for p in paths:
        if p.outcome != "ret":
            case.rep["harness_errors"].append(f"driver raised {p.value!r}")
            continue
        flags, (dq, warns, called) = p.value
        rp = ("driver", (lambda f: lambda mdl: dict(fam=fam, role=role, flags=f, env={k: mdl.eval(v, model_completion=True).as_long() for k, v in cz.items()}))(flags))
        case.twin(p)
        exp = expected_dq(fam, role, cz, flags)
        conj = [z3.BoolVal(len(dq) == len(set(dq)))]
        for name, viol in exp.items():
            conj.append(z3.BoolVal(name in dq) == viol)
        conj.append(z3.BoolVal(all(d in exp for d in dq)))
        case.prove(p, z3.And(*conj), "reported disqualifications == exactly the violated criteria", replay=rp)
        case.prove(p, not any("extreme" in d for d in dq) and (not flags["_check_extreme_values"] or role == "reporting" or any("extreme" in w for w in warns)),
                   "extreme values are a warning and never a disqualification", replay=rp)
        if role == "reporting":
            case.prove(p, "_check_negative_meter_values" not in called and P + "incorrect_number_of_total_days" not in dq,
                       "reporting data is never tested for span or negative values", replay=rp)
    nt, nv = cz["n_days_total"], cz["n_valid_days"]
    case.regime("span below 329", role != "baseline" or case.reach("a", [nt == 328]) is not None)
    case.regime("span above 365", role != "baseline" or case.reach("b", [nt == 366]) is not None)
    case.regime("exactly 90% valid days", case.reach("c", [nt == 360, nv == 324]) is not None)
    case.regime("just under 90%", case.reach("d", [nt == 360, nv == 323]) is not None)
    case.sample(dict(family=fam, role=role, paths=len(paths)))


# ------------------------------------------------------------------ frame-based checks

def frame_index(n, kind):
    if kind == "daily":
        return pd.date_range("2021-01-29", periods=n, freq="D", tz="US/Pacific")
    if kind == "billing":
        return pd.DatetimeIndex([pd.Timestamp("2021-01-05", tz="UTC"), pd.Timestamp("2021-02-04", tz="UTC"), pd.Timestamp("2021-03-08", tz="UTC"),
                                 pd.Timestamp("2021-04-06", tz="UTC"), pd.Timestamp("2021-05-05", tz="UTC")][:n])
    return pd.date_range("2021-01-31 21:00", periods=n, freq="h", tz="UTC")


def valid_days_run(kind, n, role, sym, env=None, states=None):
    idx = frame_index(n, kind)
    if sym:
        obs, os_ = F.sym_cells("o", n)
        tnn = [integer(f"tnn{i}") for i in range(n)]
        tn = [integer(f"tn{i}") for i in range(n)]
        eng = E.cur()
        for i in range(n):
            eng.assume(z3.And(z3.Int(f"tnn{i}") >= 0, z3.Int(f"tn{i}") >= 0, z3.Int(f"tnn{i}") + z3.Int(f"tn{i}") >= 1, z3.Int(f"tnn{i}") + z3.Int(f"tn{i}") <= 48))
        # the temperature column as the data classes deliver it: a value unless half or fewer of the day's readings are
        # present (rows 0-1: solver-decided; rows 2+: assumed above 50 %, to keep the path count down)
        temp = []
        for i in range(n):
            half_or_less = 2 * z3.Int(f"tnn{i}") <= z3.Int(f"tnn{i}") + z3.Int(f"tn{i}")
            if i < 2:
                temp.append(NAN if eng.branch(half_or_less) else real(f"T{i}"))
            else:
                eng.assume(z3.Not(half_or_less))
                temp.append(real(f"T{i}"))
        df = pd.DataFrame({"observed": SymArray(obs), "temperature": SymArray(temp), "temperature_not_null": SymArray(tnn), "temperature_null": SymArray(tn)}, index=idx)
    else:
        os_ = states
        df = pd.DataFrame({"observed": [float(env.get(f"o{i}", 1.0)) if os_[i] == "val" else np.nan for i in range(n)],
                           "temperature": [50.0 + i if 2 * int(env[f"tnn{i}"]) > int(env[f"tnn{i}"]) + int(env[f"tn{i}"]) else np.nan for i in range(n)],
                           "temperature_not_null": [int(env[f"tnn{i}"]) for i in range(n)], "temperature_null": [int(env[f"tn{i}"]) for i in range(n)]}, index=idx)
    obj = mk(sc.DailySufficiencyCriteria, data=df, is_reporting_data=(role == "reporting"))
    obj._compute_valid_meter_temperature_days()
    return os_, obj.n_valid_days, obj.n_valid_temperature_days, obj.n_valid_meter_value_days, idx


def period_days(idx):
    """each timestamp's period up to the next timestamp, in days (the last row has no period)"""
    d = [(b - a) / pd.Timedelta(days=1) for a, b in zip(idx[:-1], idx[1:])]
    return d + [None]


def replay_valid(inp):
    os_, nv, nt, nm, idx = valid_days_run(inp["kind"], inp["n"], inp["role"], False, inp["env"], inp["states"])
    pd_ = period_days(idx)
    env = inp["env"]
    n = inp["n"]
    tok = [10 * env[f"tnn{i}"] > 9 * (env[f"tnn{i}"] + env[f"tn{i}"]) for i in range(n)]
    mok = [s == "val" for s in os_]
    ent = int(sum(d for d, t in zip(pd_, tok) if d is not None and t))
    env_ = int(sum(d for d, t, m in zip(pd_, tok, mok) if d is not None and t and (m or inp["role"] == "reporting")))
    bad = (nt != ent) or (nv != env_)
    return bad, f"n_valid_temperature_days={nt} (expected {ent}), n_valid_days={nv} (expected {env_})"


def run_valid_days(case, only_kind, only_role):
    for kind, n in ((only_kind, 4),):
        for role in (only_role,):
            case.inputs = [z3.Real(f"o{i}") for i in range(n)] + [z3.Int(f"tnn{i}") for i in range(n)] + [z3.Int(f"tn{i}") for i in range(n)]
            with sym_module():
                paths = case.explore(lambda: valid_days_run(kind, n, role, True))
            for p in paths:
                if p.outcome != "ret":
                    case.rep["harness_errors"].append(f"valid-days raised {p.value!r} ({kind},{role})")
                    continue
                os_, nv, nt, nm, idx = p.value
                rp = ("valid", (lambda s: lambda mdl: dict(kind=kind, n=n, role=role, states=s, env=_ienv(mdl, case.inputs)))(os_))
                pdays = period_days(idx)
                tok = [10 * z3.Int(f"tnn{i}") > 9 * (z3.Int(f"tnn{i}") + z3.Int(f"tn{i}")) for i in range(n)]
                from symv.proxies import rv
                ent = sum((z3.If(tok[i], to_real(rv(pdays[i])), z3.RealVal(0)) for i in range(n) if pdays[i] is not None), z3.RealVal(0))
                env_ = sum((z3.If(z3.And(tok[i], z3.BoolVal(os_[i] == "val" or role == "reporting")), to_real(rv(pdays[i])), z3.RealVal(0)) for i in range(n) if pdays[i] is not None), z3.RealVal(0))
                g = lambda x: to_real(lift(x)) if isinstance(x, SReal) else z3.RealVal(str(x))
                fl = lambda x: z3.ToReal(z3.ToInt(x))
                case.prove(p, g(nt) == fl(ent), "valid temperature days = sum of period lengths of rows with > 90% temperature coverage", replay=rp)
                case.prove(p, g(nv) == fl(env_), "valid days = periods with usage present and > 90% temperature coverage", replay=rp)
    case.sample(dict(check="_compute_valid_meter_temperature_days", indexes=["daily", "billing", "hourly"]))


def _ienv(mdl, inputs):
    from symv.proxies import zval
    return {v.decl().name(): zval(mdl.eval(v, model_completion=True)) for v in inputs}


def negative_run(n, electric, role, vals, temps=None):
    idx = frame_index(n, "daily")
    df = pd.DataFrame({"observed": vals, "temperature": [50.0] * n if temps is None else temps}, index=idx)
    obj = mk(sc.DailySufficiencyCriteria, data=df, is_electricity_data=electric, is_reporting_data=(role == "reporting"))
    obj._check_negative_meter_values()
    ok = obj._check_no_data()
    return [w.qualified_name for w in obj.disqualification], ok


def replay_negative(inp):
    n = inp["n"]
    vals = [float(inp["env"].get(f"o{i}", 0.0)) if inp["states"][i] == "val" else np.nan for i in range(n)]
    tst = inp.get("tstates") or ["val"] * n
    temps = [float(inp["env"].get(f"T{i}", 50.0)) if tst[i] == "val" else np.nan for i in range(n)]
    dq, ok = negative_run(n, inp["electric"], inp["role"], vals, temps)
    neg = any(v < 0 for v in vals if v == v)  # a negative reading counts whether or not that day has a temperature
    want_neg = neg and not inp["electric"] and inp["role"] == "baseline"
    want_nodata = all(v != v or t != t for v, t in zip(vals, temps))
    bad = ((P + "negative_meter_values") in dq) != want_neg or ((P + "no_data") in dq) != want_nodata
    return bad, f"{dq} for observed={vals}, temperature={temps}, electric={inp['electric']}, {inp['role']}"


def run_negative(case):
    n = 3
    case.inputs = [z3.Real(f"o{i}") for i in range(n)] + [z3.Real(f"T{i}") for i in range(n)]

    def run():
        electric = F.choose("electric", [True, False])
        role = F.choose("role", ["baseline", "reporting"])
        vals, st = F.sym_cells("o", n)
        temps, tst = F.sym_cells("T", n)  # days without a temperature can still carry a (negative) reading
        return electric, role, (st, tst), negative_run(n, electric, role, SymArray(vals), SymArray(temps))

    with sym_module():
        paths = case.explore(run)
    for p in paths:
        if p.outcome != "ret":
            case.rep["harness_errors"].append(f"negative raised {p.value!r}")
            continue
        electric, role, (st, tst), (dq, ok) = p.value
        rp = ("negative", (lambda a, b, c, d: lambda mdl: dict(n=n, electric=a, role=b, states=c, tstates=d, env=_ienv(mdl, case.inputs)))(electric, role, st, tst))
        neg = z3.Or(*[z3.Real(f"o{i}") < 0 for i in range(n) if st[i] == "val"]) if any(s == "val" for s in st) else z3.BoolVal(False)
        want = z3.And(neg, z3.BoolVal((not electric) and role == "baseline"))
        case.prove(p, z3.BoolVal((P + "negative_meter_values") in dq) == want, "negative usage disqualifies exactly non-electric baselines", replay=rp)
        case.prove(p, ((P + "no_data") in dq) == all(s == "nan" or t == "nan" for s, t in zip(st, tst)), "no_data <=> every row has a missing value", replay=rp)
        case.regime("negative usage on a day without temperature", any(s == "val" and t == "nan" for s, t in zip(st, tst)) and (P + "negative_meter_values") in dq)
        if (P + "negative_meter_values") in dq:
            case.regime("negative gas usage")
    case.sample(dict(check="_check_negative_meter_values/_check_no_data", rows=n))


# ------------------------------------------------------------------ daily data class: every supplied day reaches the test

EDGE_N = 7
EDGE_ROWS = (0, 3, EDGE_N - 1)


def edges_run(ost, tst, sym, env=None):
    """real DailyBaselineData on a 7-day frame whose first, middle and last day may lack usage and/or temperature;
    returns (frame handed to the sufficiency test, data frame) or None when the class refuses the input"""
    import opendsm.eemeter.models.daily.data as dd
    idx = pd.date_range("2021-12-25", periods=EDGE_N, freq="D", tz="US/Pacific")

    def col(prefix, st):
        out = []
        for i in range(EDGE_N):
            if st.get(i) == "nan":
                out.append(NAN if sym else np.nan)
            else:
                out.append(real(f"{prefix}{i}") if sym else float(env.get(f"{prefix}{i}", 1.0 + i)))
        return SymArray(out) if sym else np.array(out, dtype=float)
    df = pd.DataFrame({"observed": col("o", ost), "temperature": col("T", tst)}, index=idx)
    orig = dd.DailyBaselineData._check_data_sufficiency
    seen = {}

    def spy(self, sufficiency_df):
        seen["sdf"] = sufficiency_df
        return orig(self, sufficiency_df)
    with patched(dd.DailyBaselineData, _check_data_sufficiency=spy):
        try:
            d = dd.DailyBaselineData(df, is_electricity_data=False)
        except (ValueError, AttributeError):
            return None
    return idx, seen.get("sdf"), d.df


def edges_problems(res, ost, tst):
    if res is None:
        return []
    idx, sdf, df = res
    pr = []
    for name, f in (("frame handed to the sufficiency test", sdf), ("data frame", df)):
        if f is None or list(f.index) != list(idx):
            pr.append(f"{name} has {0 if f is None else len(f)} rows ({None if f is None or not len(f) else str(f.index[0].date())} .. {None if f is None or not len(f) else str(f.index[-1].date())}) "
                      f"for {len(idx)} supplied days ({idx[0].date()} .. {idx[-1].date()})")
            continue
        for c, st in (("observed", ost), ("temperature", tst)):
            got = [is_nan(x) for x in cells(f[c])]
            want = [st.get(i) == "nan" for i in range(EDGE_N)]
            if got != want:
                pr.append(f"{name}: {c} missing on days {[i for i, g in enumerate(got) if g]}, supplied data lacks it on {[i for i, w in enumerate(want) if w]}")
    return pr


def replay_edges(inp):
    import logging
    logging.disable(logging.CRITICAL)
    ost = {int(k): v for k, v in inp["ost"].items()}
    tst = {int(k): v for k, v in inp["tst"].items()}
    pr = edges_problems(edges_run(ost, tst, False, inp["env"]), ost, tst)
    return bool(pr), "; ".join(pr[:3])


def run_edges(case):
    from . import dataclass as D
    case.inputs = [z3.Real(f"o{i}") for i in range(EDGE_N)] + [z3.Real(f"T{i}") for i in range(EDGE_N)]

    def run():
        ost = {i: F.choose(f"o_state{i}", ["val", "nan"]) for i in EDGE_ROWS}
        tst = {i: F.choose(f"T_state{i}", ["val", "nan"]) for i in (EDGE_ROWS[0], EDGE_ROWS[-1])}
        return ost, tst, edges_run(ost, tst, True)

    with D.symbolic_dataclasses():
        paths = case.explore(run)
    for p in paths:
        if p.outcome != "ret":
            case.rep["harness_errors"].append(f"DailyBaselineData raised {p.value!r}")
            continue
        ost, tst, res = p.value
        rp = ("edges", (lambda a, b: lambda mdl: dict(ost={str(k): v for k, v in a.items()}, tst={str(k): v for k, v in b.items()}, env=_ienv(mdl, case.inputs)))(ost, tst))
        pr = edges_problems(res, ost, tst)
        case.prove(p, not pr, "every supplied day reaches the sufficiency test with exactly the usage/temperature it was supplied with (first and last days included)", replay=rp)
        case.regime("last supplied days lack usage and temperature", ost[EDGE_N - 1] == "nan" and tst[EDGE_N - 1] == "nan" and res is not None)
        if res is None:
            case.note(f"data class refused the input for usage states {ost}, temperature states {tst}")
    case.sample(dict(rows=EDGE_N, paths=len(paths)))


# ------------------------------------------------------------------ hourly: frame handed to the sufficiency test

def hourly_sdf_run(states, vals):
    """real hourly.data._create_sufficiency_df on a 2-row frame; states[col][i] in {"measured", "interpolated", "missing"}"""
    import opendsm.eemeter.models.hourly.data as hd
    idx = pd.date_range("2021-01-04", periods=2, freq="h", tz="UTC")
    cols = {}
    for c in ("observed", "temperature", "ghi"):
        cols[c] = vals[c]
        cols[f"interpolated_{c}"] = [1 if s == "interpolated" else 0 for s in states[c]]
    df = pd.DataFrame(cols, index=idx)
    return hd._create_sufficiency_df(df)


def _sdf_check(out, states, value_of):
    """list of problems: a value counts as measured exactly when it was supplied (not filled, not missing)"""
    pr = []
    for c in ("observed", "temperature", "ghi"):
        got = cells(out[c])
        for i, s in enumerate(states[c]):
            measured = s == "measured"
            if measured != (not is_nan(got[i])):
                pr.append(f"{c}[{i}] was {s} but reaches the sufficiency test as {'a value' if not is_nan(got[i]) else 'missing'}")
            elif measured and not value_of(got[i], c, i):
                pr.append(f"{c}[{i}] changed on the way to the sufficiency test")
    tn, tnn = [float(x) for x in cells(out["temperature_null"])], [float(x) for x in cells(out["temperature_not_null"])]
    for i, s in enumerate(states["temperature"]):
        want = (0.0, 1.0) if s == "measured" else (1.0, 0.0)
        if (tn[i], tnn[i]) != want:
            pr.append(f"temperature[{i}] was {s}: counts (null, not null) = {(tn[i], tnn[i])}, expected {want}")
    return pr


def replay_hourly_sdf(inp):
    states = inp["states"]
    vals = {c: np.array([np.nan if states[c][i] == "missing" else float(inp["env"].get(f"{c[0]}{i}", 1.0 + i)) for i in range(2)]) for c in states}
    out = hourly_sdf_run(states, vals)
    pr = _sdf_check(out, states, lambda g, c, i: float(g) == float(vals[c][i]))
    return bool(pr), "; ".join(pr[:3])


def run_hourly_sdf(case):
    case.inputs = [z3.Real(f"{c}{i}") for c in "otg" for i in range(2)]
    import opendsm.eemeter.models.hourly.data as hd
    from symv.carriers import patched as _patched

    def run():
        states = {c: [F.choose(f"{c}_state{i}", ["measured", "interpolated", "missing"]) if i == 0 or c == "temperature" else "measured" for i in range(2)]
                  for c in ("observed", "temperature", "ghi")}
        vals = {c: SymArray([NAN if states[c][i] == "missing" else real(f"{c[0]}{i}") for i in range(2)]) for c in states}
        return states, hourly_sdf_run(states, vals)

    with _patched(hd, np=symnp):
        paths = case.explore(run)
    for p in paths:
        if p.outcome != "ret":
            case.rep["harness_errors"].append(f"_create_sufficiency_df raised {p.value!r}")
            continue
        states, out = p.value
        rp = ("hourly-sdf", (lambda st: lambda mdl: dict(states=st, env=_ienv(mdl, case.inputs)))(states))
        pr = _sdf_check(out, states, lambda g, c, i: isinstance(g, SReal) and z3.eq(z3.simplify(lift(g)), z3.Real(f"{c[0]}{i}")))
        case.prove(p, not pr, "hourly: exactly the measured (not filled, not missing) values and hours are counted by the sufficiency test", replay=rp)
        case.regime("interpolated temperature hour", "interpolated" in states["temperature"])
    case.sample(dict(check="_create_sufficiency_df", paths=len(paths)))


def monthly_run(col, states, fam="hourly", role="baseline"):
    n = len(states)
    idx = frame_index(n, "hourly")  # spans the Jan/Feb boundary: 3 rows in January, the rest in February
    vals = [1.0 if s == "val" else np.nan for s in states]
    df = pd.DataFrame({"temperature": [50.0] * n, "observed": [1.0] * n, "ghi": [1.0] * n}, index=idx)
    df[col] = vals
    obj = mk(FAMS[fam], data=df, is_reporting_data=(role == "reporting"))
    {"temperature": obj._check_monthly_temperature_values_percentage,
     "observed": getattr(obj, "_check_monthly_meter_readings_percentage", lambda: None),
     "ghi": getattr(obj, "_check_monthly_ghi_percentage", lambda: None)}[col]()
    return [w.qualified_name for w in obj.disqualification], idx


def replay_monthly(inp):
    dq, idx = monthly_run(inp["col"], inp["states"], role=inp["role"])
    want = _monthly_want(inp["col"], inp["states"], idx, inp["role"])
    return (len(dq) > 0) != want, f"{dq} for {inp['col']} states {inp['states']} ({inp['role']})"


def _monthly_want(col, states, idx, role):
    if col == "observed" and role == "reporting":
        return False
    by = {}
    for t, s in zip(idx, states):
        by.setdefault(t.month, []).append(s == "val")
    return any(10 * sum(v) < 9 * len(v) for v in by.values())


def run_monthly(case):
    n = 13  # 3 January rows + 10 February rows: one missing February row is exactly 90%
    case.inputs = []
    for col in ("temperature", "observed", "ghi"):
        for role in ("baseline", "reporting"):
            def run():
                states = [F.choose(f"s{i}", ["val", "nan"]) if i in (0, 3, 4) else "val" for i in range(n)]
                return states, monthly_run(col, states, role=role)

            paths = case.explore(run)
            for p in paths:
                if p.outcome != "ret":
                    case.rep["harness_errors"].append(f"monthly raised {p.value!r}")
                    continue
                states, (dq, idx) = p.value
                want = _monthly_want(col, states, idx, role)
                case.prove(p, (len(dq) > 0) == want, "a calendar month under 90% coverage disqualifies (temperature; hourly: usage and irradiance)",
                           replay=("monthly", (lambda s: lambda mdl: dict(col=col, states=s, role=role))(states)))
                if want:
                    case.regime("month under 90% temperature")
    case.sample(dict(check="monthly coverage", rows=n))


def extreme_run(vals, role="baseline"):
    n = len(vals)
    idx = frame_index(n, "daily")
    df = pd.DataFrame({"observed": vals, "temperature": [50.0] * n}, index=idx)
    obj = mk(sc.DailySufficiencyCriteria, data=df, is_reporting_data=(role == "reporting"))
    obj._check_extreme_values()
    return [w.qualified_name for w in obj.warnings], [w.qualified_name for w in obj.disqualification]


def replay_extreme(inp):
    vals = [float(inp["env"][f"o{i}"]) for i in range(inp["n"])]
    w, dq = extreme_run(vals)
    a = np.array(vals)
    lim = np.median(a) + 3 * (np.quantile(a, 0.75) - np.quantile(a, 0.25))
    want = bool((a > lim).any())
    return (len(w) > 0) != want or bool(dq), f"warnings {w}, disqualifications {dq} for {vals}; limit {lim}"


def run_extreme(case):
    for n in (3, 4, 5):
        case.inputs = [z3.Real(f"o{i}") for i in range(n)]

        def run():
            return extreme_run(SymArray([real(f"o{i}") for i in range(n)]))

        def _q(self, q=0.5, *a, **k):
            return symnp.quantile(cells(self), q)

        with sym_module(), patched(pd.Series, quantile=_q):
            paths = case.explore(run)
        o = [z3.Real(f"o{i}") for i in range(n)]
        srt = symnp.sort_sym([SReal(x) for x in o])
        sz = [lift(x) for x in srt]

        def qz(q):
            from fractions import Fraction
            pos = Fraction(q).limit_denominator(100) * (n - 1)
            lo = int(pos)
            g = pos - lo
            return sz[lo] if g == 0 else sz[lo] + (sz[lo + 1] - sz[lo]) * z3.RealVal(str(g))
        lim = qz(0.5) + 3 * (qz(0.75) - qz(0.25))
        for p in paths:
            rp = ("extreme", lambda mdl: dict(n=n, env=_ienv(mdl, case.inputs)))
            if p.outcome != "ret":
                case.prove(p, False, "extreme-value check does not raise", replay=rp)
                continue
            w, dq = p.value
            case.prove(p, z3.BoolVal(len(w) > 0) == z3.Or(*[x > lim for x in o]), "extreme-value warning <=> a value above median + 3 IQR", replay=rp)
            case.prove(p, not dq, "extreme values never disqualify", replay=rp)
            if w:
                case.regime("extreme value flagged")
    case.sample(dict(check="_check_extreme_values", rows=[3, 4, 5]))


# ------------------------------------------------------------------ ground: constructors accept well-formed frames

def ctor_catalogue():
    from opendsm.eemeter.models.daily.data import DailyBaselineData, DailyReportingData
    from opendsm.eemeter.models.billing.data import BillingBaselineData
    rng = np.random.default_rng(0)
    items = []
    for tz in ("US/Pacific", "UTC"):
        idx = pd.date_range("2021-01-01", periods=365, freq="D", tz=tz)
        df = pd.DataFrame({"observed": rng.random(365) + 1.0, "temperature": rng.random(365) * 50 + 30}, index=idx)
        items.append((f"DailyBaselineData(365 daily rows, {tz})", lambda df=df: DailyBaselineData(df.copy(), is_electricity_data=True), []))
        items.append((f"DailyReportingData(365 daily rows, {tz})", lambda df=df: DailyReportingData(df.copy(), is_electricity_data=True), []))
        short = df.iloc[:300]
        items.append((f"DailyBaselineData(300 daily rows, {tz})", lambda df=short: DailyBaselineData(df.copy(), is_electricity_data=True), [P + "incorrect_number_of_total_days"]))
        gas = df.copy()
        gas.iloc[10, 0] = -1.0
        items.append((f"DailyBaselineData(gas, one negative day, {tz})", lambda df=gas: DailyBaselineData(df.copy(), is_electricity_data=False), [P + "negative_meter_values"]))
    # a span counted on the local calendar: 329 days from standard time into daylight-saving time is 329 days, not 328
    for start, n, want in (("2018-11-10", 329, []), ("2018-11-10", 328, [P + "incorrect_number_of_total_days"]), ("2019-06-01", 365, []), ("2019-06-01", 366, [P + "incorrect_number_of_total_days"])):
        idx = pd.date_range(start, periods=n, freq="D", tz="US/Pacific")
        dfx = pd.DataFrame({"observed": rng.random(n) + 1.0, "temperature": rng.random(n) * 50 + 30}, index=idx)
        items.append((f"DailyBaselineData({n} daily rows from {start}, US/Pacific)", lambda df=dfx: DailyBaselineData(df.copy(), is_electricity_data=True), want))
    # a span that starts and ends in the same calendar month of two years: the month is judged as a whole
    # (two days without temperature among the twelve January days of the first year; January overall 29 of 31)
    idx = pd.date_range("2021-01-20", periods=365, freq="D", tz="US/Pacific")
    dfy = pd.DataFrame({"observed": rng.random(365) + 1.0, "temperature": rng.random(365) * 50 + 30}, index=idx)
    dfy.iloc[[3, 7], 1] = np.nan
    items.append(("DailyBaselineData(365 rows from 2021-01-20, two January days without temperature)", lambda df=dfy: DailyBaselineData(df.copy(), is_electricity_data=True), []))
    # a 35-day bill that contains the autumn fall-back night is 35 days long, not off-cycle
    ends = ["2020-12-28", "2021-01-28", "2021-02-27", "2021-03-29", "2021-04-28", "2021-05-28", "2021-06-28", "2021-07-28", "2021-08-27", "2021-09-26", "2021-10-26", "2021-11-30", "2021-12-28"]
    midx = pd.DatetimeIndex([pd.Timestamp(e, tz="US/Pacific") for e in ends])
    meter = pd.Series(rng.random(len(midx)) * 500 + 300, index=midx)
    tidx = pd.date_range(midx[0] - pd.Timedelta(days=3), midx[-1] + pd.Timedelta(days=3), freq="h")
    temp = pd.Series(rng.random(len(tidx)) * 40 + 30, index=tidx)
    items.append(("BillingBaselineData.from_series(monthly reads, a 35-day bill across the fall-back night)", lambda a=meter, b=temp: BillingBaselineData.from_series(a.copy(), b.copy(), is_electricity_data=True), []))
    # irregular bills with a median length of exactly 35 days are monthly bills: the 40-day bill is off-cycle, its days are missing
    lens = [30, 30, 35, 35, 35, 40, 35, 35, 35, 30]
    stamps = [pd.Timestamp("2021-01-04", tz="UTC")]
    for L in lens:
        stamps.append(stamps[-1] + pd.Timedelta(days=L))
    midx = pd.DatetimeIndex(stamps)
    meter = pd.Series(list(rng.random(len(lens)) * 500 + 300) + [np.nan], index=midx)
    tidx = pd.date_range(midx[0], midx[-1], freq="h")
    temp = pd.Series(rng.random(len(tidx)) * 40 + 30, index=tidx)
    items.append(("BillingBaselineData.from_series(irregular bills, median exactly 35 days, one 40-day bill)", lambda a=meter, b=temp: BillingBaselineData.from_series(a.copy(), b.copy(), is_electricity_data=True),
                  [P + "offcycle_reads_in_billing_monthly_data", P + "too_many_days_with_missing_data", P + "too_many_days_with_missing_meter_data"]))
    # billing reads on a regular 28-day calendar (inferred as an anchored weekly frequency) and on calendar months
    for label, midx in (("every 28 days", pd.date_range("2020-01-05", periods=14, freq="28D", tz="US/Pacific")), ("month starts", pd.date_range("2021-01-01", periods=13, freq="MS", tz="US/Pacific"))):
        meter = pd.Series(rng.random(len(midx)) * 500 + 300, index=midx)
        tidx = pd.date_range(midx[0] - pd.Timedelta(days=3), midx[-1] + pd.Timedelta(days=3), freq="h")
        temp = pd.Series(rng.random(len(tidx)) * 40 + 30, index=tidx)
        items.append((f"BillingBaselineData.from_series(reads {label})", lambda a=meter, b=temp: BillingBaselineData.from_series(a.copy(), b.copy(), is_electricity_data=True), []))
    # hourly data classes: complete year; meter data is optional for reporting (temperature-only frames are well formed)
    from opendsm.eemeter.models.hourly.data import HourlyBaselineData, HourlyReportingData
    for tz in ("US/Pacific", "Europe/Berlin"):
        hidx = pd.date_range("2021-01-01", periods=24 * 365, freq="h", tz=tz)
        hdf = pd.DataFrame({"temperature": 60 + 10 * rng.random(len(hidx)), "observed": 1.0 + rng.random(len(hidx))}, index=hidx)
        items.append((f"HourlyBaselineData(365 days, {tz})", lambda df=hdf: HourlyBaselineData(df.copy(), is_electricity_data=True), []))
        items.append((f"HourlyReportingData(365 days with usage, {tz})", lambda df=hdf: HourlyReportingData(df.copy(), is_electricity_data=True), []))
        items.append((f"HourlyReportingData(365 days, temperature only, {tz})", lambda df=hdf[["temperature"]]: HourlyReportingData(df.copy(), is_electricity_data=True), []))
        q1 = hdf[["temperature"]][hdf.index < pd.Timestamp("2021-04-01", tz=tz)]  # January-March, whole local days
        items.append((f"HourlyReportingData(first quarter, temperature only, {tz})", lambda df=q1: HourlyReportingData(df.copy(), is_electricity_data=True), []))
        # a period whose last local day is a 23-hour (spring-forward) day AND the last day of its month, and one ending on a 25-hour day
        for label, a, b in (("ends on the spring-forward day 2019-03-31", "2019-01-01", "2019-04-01"), ("ends on the fall-back day 2021-10-31", "2021-08-01", "2021-11-01")):
            eidx = pd.date_range(pd.Timestamp(a, tz="Europe/Berlin"), pd.Timestamp(b, tz="Europe/Berlin"), freq="h", inclusive="left")
            edf = pd.DataFrame({"temperature": 50 + 10 * rng.random(len(eidx)), "observed": 1.0 + rng.random(len(eidx))}, index=eidx)
            if tz == "Europe/Berlin":
                items.append((f"HourlyReportingData({label})", lambda df=edf: HourlyReportingData(df.copy(), is_electricity_data=True), []))
                items.append((f"HourlyReportingData({label}, temperature only)", lambda df=edf[["temperature"]]: HourlyReportingData(df.copy(), is_electricity_data=True), []))
        gap = hdf.copy()
        gap.iloc[24 * 40: 24 * 90, 0] = np.nan  # 50 days without temperature: under 90 % of days, and a month under 90 %
        items.append((f"HourlyBaselineData(50 days without temperature, {tz})", lambda df=gap: HourlyBaselineData(df.copy(), is_electricity_data=True),
                      [P + "too_many_days_with_missing_data", P + "too_many_days_with_missing_temperature_data", P + "missing_monthly_temperature_data"]))
    return items


def replay_ctor(inp):
    desc, fn, want = ctor_catalogue()[inp["index"]]
    import logging
    logging.disable(logging.CRITICAL)
    try:
        d = fn()
    except Exception as ex:
        return True, f"{desc}: raised {type(ex).__name__}: {str(ex)[:160]}"
    got = sorted(w.qualified_name for w in d.disqualification)
    return got != sorted(want), f"{desc}: disqualifications {got}, expected {sorted(want)}"


def run_ctors(case):
    fid = "C10-daily-freq-typeerror"
    items = ctor_catalogue()
    for i, (desc, fn, want) in enumerate(items):
        bad, det = replay_ctor(dict(index=i))
        label = "well-formed frame accepted; reported disqualifications == violated criteria"
        if bad and "TypeError" in det and case.finding_open(fid):
            case.ground(True, label + " (known finding)")
            case.known_finding(fid, label, dict(index=i, desc=desc), det)
        elif not case.ground(not bad, label):
            case.violation(label, "ctor", dict(index=i), det)
    case.rep["paths"] += len(items)
    case.rep["nontrivial_paths"] += len(items)
    case.sample(dict(constructor_calls=[d for d, _, _ in items]))


# ------------------------------------------------------------------ FP lemma

def run_fp(case):
    """float64: for ints 0 <= k <= n <= 1000, n >= 1: fp.div(RNE, k, n) < 0.9  <=>  10k < 9n"""
    k, n = z3.Int("k"), z3.Int("n")
    fk, fn_ = z3.fpToFP(z3.RNE(), z3.ToReal(k), z3.Float64()), z3.fpToFP(z3.RNE(), z3.ToReal(n), z3.Float64())
    kb, nb = z3.BitVec("kb", 11), z3.BitVec("nb", 11)
    s = z3.Solver()
    s.set("timeout", 900000)
    fkb = z3.fpUnsignedToFP(z3.RNE(), kb, z3.Float64())
    fnb = z3.fpUnsignedToFP(z3.RNE(), nb, z3.Float64())
    lhs = z3.fpLT(z3.fpDiv(z3.RNE(), fkb, fnb), z3.FPVal(0.9, z3.Float64()))
    rhs = z3.ULT(z3.ZeroExt(8, kb) * 10, z3.ZeroExt(8, nb) * 9)
    s.add(z3.ULE(kb, nb), z3.ULE(nb, 1000), z3.UGE(nb, 1), lhs != rhs)
    r = str(s.check())
    case.rep["obligations"] += 1
    case.rep["obligation_labels"]["FP lemma: k/n < 0.9 in float64 <=> 10k < 9n (0<=k<=n<=1000)"] = 1
    if r == "unsat":
        case.rep["discharged"] += 1
    elif r == "sat":
        m = s.model()
        case.violation("FP lemma: k/n < 0.9 in float64 <=> 10k < 9n", "fp", dict(k=m[kb].as_long(), n=m[nb].as_long()), "float and real comparison disagree")
    else:
        case.rep["inconclusive"].append("FP lemma: solver unknown")
    case.rep["paths"] += 1
    case.rep["nontrivial_paths"] += 1
    case.sample(dict(lemma="fp.div(k,n) < 0.9 <=> 10k < 9n", verdict=r))


def replay_fp(inp):
    k, n = inp["k"], inp["n"]
    return ((k / float(n)) < 0.9) != (10 * k < 9 * n), f"k={k}, n={n}: {k / float(n)}"


REPLAY = {"edges": replay_edges, "hourly-sdf": replay_hourly_sdf, "driver": replay_driver, "valid": replay_valid, "negative": replay_negative, "monthly": replay_monthly, "extreme": replay_extreme,
          "ctor": replay_ctor, "fp": replay_fp}


def run_case(case: Case, name: str):
    parts = name.split("/")
    if parts[0] == "driver":
        return run_driver_case(case, parts[1], parts[2])
    if parts[0] == "frame" and parts[1] == "valid-days":
        return run_valid_days(case, parts[2], parts[3])
    if parts[0] == "frame":
        return {"negative": run_negative, "monthly": run_monthly, "extreme": run_extreme, "hourly-sdf": run_hourly_sdf, "edges": run_edges}[parts[1]](case)
    if parts[0] == "ground":
        return run_ctors(case)
    return run_fp(case)
