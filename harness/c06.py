"""C06 - predictions come back one row per input timestamp, on the real clock.

(a) daily/billing: DailyModel._predict on tz-aware daily indexes around DST transitions (symbolic values and
    NaN masks): output index == input index (sorted), finiteness pattern.
(b) hourly clock normalisation: _get_dst_indices, HourlyModel._get_feature_matrices (inner correct_dst) and
    _transform_dst on hourly indexes around every transition of the zone catalogue; feature values and the
    24*D prediction vector are symbolic, so "slot s holds the hour whose wall clock is s" is shown for all values.
The zone database / pandas tz arithmetic are executed for real (structures enumerated, not quantified)."""
from __future__ import annotations

import datetime as dt

import numpy as np
import pandas as pd
import pytz
import z3

import opendsm.eemeter.models.daily.model as dm
import opendsm.eemeter.models.hourly.model as hm
from symv import engine as E
from symv.carriers import symarr
from symv.case import Case
from symv.proxies import SReal, lift, model_env, real, to_real
from symv.symarray import SymArray, cells

from . import dailyframe as F
from . import dailyref as R

A_LAYOUTS_DOC = "one sub-model / weekday+weekend / two seasons; present days share one symbolic temperature"
EXPLANATION = "C06: (a) daily predict index/finiteness around DST; (b) hourly 24-slot normalisation and its inverse with symbolic features/predictions."
ZONES_QUICK = ["US/Pacific", "Europe/London", "Australia/Sydney", "America/Santiago", "America/Havana", "America/St_Johns", "America/Nuuk", "Australia/Lord_Howe"]
ZONES_THOROUGH = ZONES_QUICK + ["US/Eastern", "Europe/Berlin", "Pacific/Auckland", "Asia/Tehran", "Africa/Casablanca", "America/Sao_Paulo",
                                "Asia/Amman", "Asia/Beirut", "America/Asuncion", "Australia/Adelaide", "Asia/Kolkata", "UTC"]
BOUNDS = {"quick": dict(zones=ZONES_QUICK, years=[2021], days_around_transition=3, daily_rows=5, daily_layouts=A_LAYOUTS_DOC),
          "thorough": dict(zones=ZONES_THOROUGH, years="2000-2037 for (b), 2019-2023 for (a)", days_around_transition=3, daily_rows=6, daily_layouts=A_LAYOUTS_DOC)}
STUBS = ["minimal HourlyModel instance (object.__new__ + _ts_feature_norm/_categorical_features/is_fitted): no sklearn in the encoded functions",
         "numba kernels de-jitted for (a)"]
MODELS_USED = ["symreal ExtensionArray", "object ndarray of proxies"]
ASSUMPTIONS = ["IANA database (pytz) and pandas tz arithmetic are executed, not modelled: zones/transitions are an enumerated catalogue",
               "(c) complete hourly predict: hand-written stored model, concrete weather, enumerated spans; finiteness of hourly predictions is checked there only",
               "fractional-hour clock changes: only Australia/Lord_Howe (30 minutes; a 25-row day whose hour number 1 occurs twice) is in the catalogue; other fractional shifts are outside (b)"]
EXPECTED_REGIMES = ["23-hour day", "25-hour day", "transition at local midnight", "daily index across DST", "non-finite (inf) cell in the reporting frame",
                    "temperature-only reporting data (usage column all NaN)", "model with several sub-models and a gap in the reporting frame",
                    "calendar day absent before the transition day", "complete hourly predict across a transition"]


def ENCODED():
    return [hm._get_dst_indices, hm.HourlyModel._get_feature_matrices, hm._transform_dst, dm.DailyModel._predict, dm.DailyModel._initialize_data]


def transitions(zone, years):
    tz = pytz.timezone(zone)
    out = []
    for t in getattr(tz, "_utc_transition_times", [])[1:]:
        if t.year in years:
            before = tz.utcoffset(t - dt.timedelta(hours=2), is_dst=None) if False else pytz.utc.localize(t - dt.timedelta(seconds=1)).astimezone(tz).utcoffset()
            after = pytz.utc.localize(t + dt.timedelta(seconds=1)).astimezone(tz).utcoffset()
            if before != after and abs((after - before).total_seconds()) in ((3600, 1800) if zone == "Australia/Lord_Howe" else (3600,)):
                out.append(pytz.utc.localize(t).astimezone(tz).date().isoformat())
    return sorted(set(out))


def _years(tier, part, zone=None):
    if zone == "America/Nuuk" and tier != "thorough":
        return [2024]  # since 2024 this zone skips 23:00 (the last hour of the day) in spring
    if tier == "thorough":
        return list(range(2000, 2038)) if part == "b" else list(range(2019, 2024))
    return [2021]


def cases(tier, seed):
    zones = ZONES_THOROUGH if tier == "thorough" else ZONES_QUICK
    out = []
    for z in zones:
        out.append(f"b|{z}")
        out.append(f"a|{z}")
        out.append(f"c|{z}")
    out.append("t|two-events")  # the inverse normalisation alone: a frame holding two transitions, in either order
    return out


# ------------------------------------------------------------------ (b)

def hourly_index(zone, date, days=3, before=1):
    """whole local days: from local midnight of (date - `before` days) for `days` days, every real hour"""
    tz = pytz.timezone(zone)
    d0 = dt.date.fromisoformat(date) - dt.timedelta(days=before)
    start = pd.Timestamp(d0.isoformat()).tz_localize("UTC") - pd.Timedelta(hours=14)
    idx = pd.date_range(start, periods=24 * (days + 2), freq="h").tz_convert(zone)
    keep = [(t.date() >= d0) and (t.date() < d0 + dt.timedelta(days=days)) for t in idx]
    return idx[np.array(keep)]


def span_index(zone, date, before):
    """before = position of the transition day in a 3-day span, or "skip": 4 days with the transition day third and
    the day before it absent from the calendar (a zone that skipped a date, e.g. Pacific/Apia 2011-12-30, or a removed day)"""
    if before == "pair":
        # a frame holding the same kind of transition of two consecutive years (a period longer than a year, seen through
        # the days around its two transitions): the per-day search state must not leak from one transition day to the next
        prev = [d for d in transitions(zone, [int(date[:4]) - 1]) if d[5:7] == date[5:7]]
        cur = hourly_index(zone, date, before=1)
        return hourly_index(zone, prev[0], before=1).append(cur) if prev else cur
    if before != "skip":
        return hourly_index(zone, date, before=before)
    idx = hourly_index(zone, date, days=4, before=2)
    gone = dt.date.fromisoformat(date) - dt.timedelta(days=1)
    return idx[np.array([t.date() != gone for t in idx])]


def expected_slots(idx):
    """independent oracle from the wall clock: per local date, list of 24 slot descriptors:
    ('hour', i) real stamp i ; ('mean', i, j) mean of stamps i and j"""
    by_date = {}
    for i, t in enumerate(idx):
        by_date.setdefault(t.date(), []).append(i)
    days = sorted(by_date)
    slots, outmap = [], []
    for d_i, d in enumerate(days):
        ids = by_date[d]
        hours = [idx[i].hour for i in ids]
        row = []
        for s in range(24):
            who = [i for i, h in zip(ids, hours) if h == s]
            if len(who) == 1:
                row.append(("hour", who[0]))
            elif len(who) == 2:
                row.append(("mean", who[0], who[1]))
            elif len(who) == 0:
                row.append(("gap", s))
            else:
                row.append(("bad",))
        slots.append(row)
    return days, by_date, slots


def run_b(case: Case, zone, tier):
    years = _years(tier, "b", zone)
    trs = transitions(zone, years)
    if not trs:
        case.note(f"{zone}: no whole-hour transitions in {years[0]}-{years[-1]}")
        case.ground(True, "zone without DST: nothing to normalise")
        return
    # the transition day is the middle, the first and the last day of the span
    work = [(d, b) for d in trs for b in ((1, 0, 2, "skip", "pair") if (tier == "quick" or d[:4] in ("2021", "2011") or (zone == "America/Nuuk" and d[:4] == "2024")) else (1,))]
    for date, before in work:
        idx = span_index(zone, date, before)
        n = len(idx)
        days, by_date, slots = expected_slots(idx)
        D = len(days)
        lens = sorted(len(v) for v in by_date.values())
        if any(l not in (23, 24, 25) for l in lens):
            case.note(f"{zone} {date}: day lengths {lens}, skipped (fractional shift)")
            continue
        midnight = any(r[0][0] in ("gap", "mean") for r in slots)
        case.inputs = [z3.Real(f"f{i}") for i in range(n)] + [z3.Real(f"y{i}") for i in range(24 * D)]

        usage_variants = ["present", "absent", "missing on the transition day"] if (tier == "quick" or date[:4] in ("2021", "2011")) else ["present"]

        def run():
            f = [real(f"f{i}") for i in range(n)]
            usage = F.choose("usage", usage_variants) if len(usage_variants) > 1 else "present"
            df = pd.DataFrame({"observed": usage_column(idx, date, usage), "f_norm": SymArray(f), "c": 1.0}, index=idx)
            df["date"] = df.index.date
            dst = hm._get_dst_indices(df)
            m = object.__new__(hm.HourlyModel)
            m._ts_feature_norm = ["f_norm"]
            m._categorical_features = ["c"]
            m.is_fitted = True
            X, _ = m._get_feature_matrices(df.reset_index(), dst)
            yp = symarr([real(f"y{i}") for i in range(24 * D)])
            out = hm._transform_dst(yp, dst)
            return dst, X, out, usage

        paths = case.explore(run)
        for p in paths:
            usage = p.value[3] if p.outcome == "ret" else next((v for v in usage_variants if any(str(c) == f"usage == {usage_variants.index(v)}" for c in p.pc)), usage_variants[-1])
            rp = ("dst", lambda mdl, zone=zone, date=date, before=before, usage=usage: dict(zone=zone, date=date, before=before, usage=usage))
            if p.outcome != "ret":
                ex = p.value
                if case.finding_open("C06-midnight-dst") and midnight and isinstance(ex, KeyError):
                    ok, det = replay_dst(dict(zone=zone, date=date, before=before))
                    if ok:
                        case.known_finding("C06-midnight-dst", "clock normalisation returns", dict(zone=zone, date=date, before=before), det)
                        case.regime("transition at local midnight")
                        continue
                case.prove(p, False, "clock normalisation does not raise", replay=rp)
                continue
            dst, X, out, usage = p.value
            case.regime("temperature-only reporting data (usage column all NaN)", usage == "absent")
            case.regime("calendar day absent before the transition day", before == "skip")
            case.regime("23-hour day", 23 in lens)
            case.regime("25-hour day", 25 in lens)
            if midnight:
                case.regime("transition at local midnight")
            ok = X.shape == (D, 25)
            case.prove(p, ok, "every local day has exactly 24 slots", replay=rp)
            case.prove(p, len(out) == n, "one prediction per real hour (len == len(index))", replay=rp)
            if not ok or len(out) != n:
                continue
            f = [z3.Real(f"f{i}") for i in range(n)]
            y = [z3.Real(f"y{i}") for i in range(24 * D)]
            # feature side: slot s of day d holds the hour whose wall clock is s
            conj = []
            for d in range(D):
                for s in range(24):
                    got = to_real(lift(X[d][s]))
                    sl = slots[d][s]
                    if sl[0] == "hour":
                        conj.append(got == f[sl[1]])
                    elif sl[0] == "mean":
                        conj.append(got == (f[sl[1]] + f[sl[2]]) / 2)
                    elif sl[0] == "gap":
                        # synthesised from the neighbouring real hours (previous day's last hour when s == 0)
                        prev = [i for i in range(n) if (idx[i].date(), idx[i].hour) < (days[d], s)]
                        nxt = [i for i in range(n) if (idx[i].date(), idx[i].hour) > (days[d], s)]
                        if prev and nxt:
                            conj.append(got == (f[max(prev)] + f[min(nxt)]) / 2)
                        else:  # skipped hour at the very start/end of the span: no neighbour on one side, value unconstrained
                            case.note(f"{zone} {date}: skipped hour {s} has no neighbour inside the span; slot value not constrained")
            case.prove(p, z3.And(*conj), "slot s of every day holds the feature of the hour whose wall clock is s (mean if repeated, neighbours' mean if skipped)", replay=rp)
            # prediction side: every real hour gets the prediction of its slot; the second occurrence of a repeated
            # hour gets the mean of its slot and the next one; the skipped hour's slot is dropped
            conj = []
            seen = set()
            for i, t in enumerate(idx):
                d = days.index(t.date())
                s = t.hour
                got = to_real(lift(out[i]))
                if (d, s) in seen:
                    nx = y[24 * d + s + 1] if 24 * d + s + 1 < len(y) else y[24 * d + s]
                    conj.append(got == (y[24 * d + s] + nx) / 2)
                else:
                    conj.append(got == y[24 * d + s])
                seen.add((d, s))
            case.prove(p, z3.And(*conj), "every real hour is predicted from its own slot; skipped hour absent, repeated hour twice", replay=rp)
            if len(case.rep["samples"]) < 3:
                case.sample(dict(zone=zone, transition=date, transition_day_position=before, rows=n, day_lengths=lens, dst_indices=repr(dst)))


def usage_column(idx, date, usage):
    """the usage column as the hourly reporting data class hands it over: values, all NaN (temperature-only data),
    or NaN on the transition day"""
    col = np.arange(len(idx), dtype=float)
    if usage == "absent":
        col[:] = np.nan
    elif usage != "present":
        col[np.array([t.date() == dt.date.fromisoformat(date) for t in idx])] = np.nan
    return col


def replay_dst(inp):
    """concrete float run of the three functions: returns (bad, detail)"""
    zone, date = inp["zone"], inp["date"]
    idx = span_index(zone, date, inp.get("before", 1))
    n = len(idx)
    rng = np.random.default_rng(0)
    fv = rng.normal(size=n)
    df = pd.DataFrame({"observed": usage_column(idx, date, inp.get("usage", "present")), "f_norm": fv, "c": 1.0}, index=idx)
    df["date"] = df.index.date
    try:
        dst = hm._get_dst_indices(df)
        m = object.__new__(hm.HourlyModel)
        m._ts_feature_norm = ["f_norm"]
        m._categorical_features = ["c"]
        m.is_fitted = True
        X, _ = m._get_feature_matrices(df.reset_index(), dst)
        D = X.shape[0]
        yv = rng.normal(size=24 * D)
        out = hm._transform_dst(yv, dst)
    except Exception as ex:
        return True, f"{type(ex).__name__}: {str(ex)[:160]} for hourly index {idx[0]} .. {idx[-1]}, usage {inp.get('usage', 'present')}"
    days, by_date, slots = expected_slots(idx)
    pr = []
    if X.shape != (len(days), 25):
        pr.append(f"X shape {X.shape}")
    if len(out) != n:
        pr.append(f"{len(out)} predictions for {n} hours")
    if not pr:
        seen = set()
        for i, t in enumerate(idx):
            d, s = days.index(t.date()), t.hour
            exp = (yv[24 * d + s] + yv[min(24 * d + s + 1, len(yv) - 1)]) / 2 if (d, s) in seen else yv[24 * d + s]
            seen.add((d, s))
            if abs(out[i] - exp) > 1e-12:
                pr.append(f"hour {t}: prediction {out[i]} != slot value {exp}")
        for d in range(len(days)):
            for s in range(24):
                sl = slots[d][s]
                if sl[0] == "hour" and abs(X[d][s] - fv[sl[1]]) > 1e-12:
                    pr.append(f"day {d} slot {s}: {X[d][s]} != feature of hour {idx[sl[1]]}")
                if sl[0] == "mean" and abs(X[d][s] - (fv[sl[1]] + fv[sl[2]]) / 2) > 1e-12:
                    pr.append(f"day {d} slot {s}: not the mean of the repeated hour")
    return bool(pr), "; ".join(pr[:4])


# ------------------------------------------------------------------ (a)

def daily_index(zone, date, n):
    d0 = dt.date.fromisoformat(date) - dt.timedelta(days=n // 2)
    return pd.date_range(d0.isoformat(), periods=n, freq="D", tz=zone)


A_LAYOUTS = ["single", "wdwe-flat", "season"]


def run_a(case: Case, zone, tier):
    n = 6 if tier == "thorough" else 5
    trs = transitions(zone, _years(tier, "a", zone)) or ["2021-06-15"]
    case.inputs = [z3.Real("T0")] + [z3.Real(f"o{i}") for i in range(n)]
    for date in trs:
        try:
            idx = daily_index(zone, date, n)
        except Exception as ex:  # local midnight does not exist on the transition day: no such daily input exists
            case.note(f"{zone} {date}: daily index at local midnight cannot be built ({type(ex).__name__})")
            continue
        case.regime("daily index across DST", len(set(t.utcoffset() for t in idx)) > 1)
        for with_obs in (True, False):
            def run():
                lay = F.choose("layout", A_LAYOUTS)
                m = F.model(lay, tz=zone)
                # missing / non-finite state symbolic on two designated rows; the present days share one symbolic
                # temperature (index and finiteness are the subject here, and each own symbol forks 3 ways per row)
                T, ts = [], []
                for i in range(n):
                    st = F.choose(f"T_state{i}", ["val", "nan", "inf"]) if i in (1, n - 1) else "val"
                    ts.append(st)
                    T.append(real("T0") if st == "val" else float(st))
                cols = {"temperature": SymArray(T)}
                os_ = None
                if with_obs:
                    O, os_ = [], []
                    for i in range(n):
                        st = F.choose(f"o_state{i}", ["val", "nan", "inf"]) if i in (0, 1) else "val"
                        os_.append(st)
                        O.append(real(f"o{i}") if st == "val" else float(st))
                    cols["observed"] = SymArray(O)
                df = pd.DataFrame(cols, index=idx)
                return lay, ts, os_, m._predict(df)

            with R.symbolic_daily():
                paths = case.explore(run)
            for p in paths:
                if p.outcome != "ret":
                    case.rep["harness_errors"].append(f"unexpected exception in _predict ({zone} {date}): {p.value!r}")
                    continue
                lay, ts, os_, out = p.value
                rp = ("daily", (lambda st: lambda mdl: dict(zone=zone, date=date, n=n, layout=st[2], env=model_env(mdl, case.inputs), ts=st[0], os=st[1]))((ts, os_, lay)))
                same = len(out) == n and all(a == b for a, b in zip(out.index, idx)) and out.index.is_monotonic_increasing \
                    and str(out.index.tz) == str(idx.tz)
                case.prove(p, bool(same), "output index == input index (no row dropped, duplicated or shifted; chronological)", replay=rp)
                if not same:
                    continue
                pred = cells(out["predicted"])
                for i in range(n):
                    want = ts[i] == "val" and (os_ is None or os_[i] == "val")
                    case.prove(p, F.finite(pred[i]) == want, "predicted finite exactly on rows with temperature (and usage when supplied)", replay=rp)
                case.regime("non-finite (inf) cell in the reporting frame", "inf" in ts or (os_ is not None and "inf" in os_))
                case.regime("model with several sub-models and a gap in the reporting frame", lay != "single" and ("nan" in ts or (os_ is not None and "nan" in os_)))


def replay_daily(inp):
    idx = daily_index(inp["zone"], inp["date"], inp["n"])
    env = dict(inp["env"])
    env.update({f"T{i}": env.get("T0", 0.0) for i in range(inp["n"])})
    df = F.float_frame(idx, env, inp["ts"], inp["os"])
    m = F.model(inp.get("layout", "single"), tz=inp["zone"])
    out = m._predict(df.copy())
    pr = []
    if len(out) != len(idx) or not all(a == b for a, b in zip(out.index, idx)):
        pr.append(f"index differs: {list(out.index)} vs {list(idx)}")
    else:
        for i, t in enumerate(idx):
            want = np.isfinite(df["temperature"].iloc[i]) and (inp["os"] is None or np.isfinite(df["observed"].iloc[i]))
            if bool(np.isfinite(out["predicted"].iloc[i])) != bool(want):
                pr.append(f"{t}: predicted {out['predicted'].iloc[i]} (temperature {df['temperature'].iloc[i]}, layout {inp.get('layout', 'single')})")
    return bool(pr), "; ".join(pr[:4])


# ------------------------------------------------------------------ (c) the complete hourly predict, concrete weather

def hourly_predict_scenario(zone, date, before, usage, form="plain"):
    """real HourlyReportingData + HourlyModel.predict (hand-written stored model for `zone`, see hourlyref) on the
    whole local days around a transition: one finite prediction per real hour, on the real clock"""
    import logging
    logging.disable(logging.CRITICAL)
    from opendsm.eemeter.models.hourly.data import HourlyReportingData
    from . import hourlyref as H
    idx = span_index(zone, date, before) if before != "skip" else hourly_index(zone, date, days=4, before=2)
    rng = np.random.default_rng(11)
    df = pd.DataFrame({"temperature": rng.normal(55, 15, len(idx))}, index=idx)
    if usage != "absent":
        df["observed"] = np.abs(rng.normal(1.5, 0.5, len(idx))) + 0.1
        if usage != "present":
            df.loc[np.array([t.date() == dt.date.fromisoformat(date) for t in idx]), "observed"] = np.nan
    if form == "microseconds":
        df.index = df.index.as_unit("us")  # frames read from parquet / databases often carry a microsecond index
    elif form == "late rows":
        k = len(df) // 2
        df = pd.concat([df.iloc[:k], df.iloc[k + 3:], df.iloc[k:k + 3]])  # three readings delivered late, appended at the end
    pr = []
    try:
        data = HourlyReportingData(df, is_electricity_data=True)
        out = H.model(tz=zone).predict(data)
    except Exception as ex:
        return [f"{type(ex).__name__}: {str(ex)[:140]}"]
    if list(out.index) != list(idx) or list(data.df.index) != list(idx):
        extra = [str(t) for t in out.index if t not in set(idx)][:2]
        lost = [str(t) for t in idx if t not in set(out.index)][:2]
        pr.append(f"{len(out)} rows for {len(idx)} real hours (not in the input: {extra}; missing: {lost}; chronological: {out.index.is_monotonic_increasing})")
    elif str(out.index.tz) != str(idx.tz):
        pr.append(f"timezone {out.index.tz} instead of {idx.tz}")
    if not pr:
        # each real hour keeps its own weather (a relabelled or merged hour would come back with another hour's, or a filled-in, reading)
        sup = df["temperature"].sort_index()
        got_t = data.df["temperature"].reindex(sup.index).to_numpy(dtype=float)
        flag = data.df["interpolated_temperature"].reindex(sup.index).to_numpy()
        moved = [str(t) for t, a, b, f in zip(sup.index, sup.to_numpy(dtype=float), got_t, flag) if np.isfinite(a) and (a != b or bool(f))]
        if moved:
            pr.append(f"{len(moved)} hours do not carry the temperature supplied for them (e.g. {moved[:2]})")
    nf = int((~np.isfinite(out["predicted"].to_numpy(dtype=float))).sum())
    if nf:
        pr.append(f"{nf} of {len(out)} hourly predictions are not finite")
    return pr


def replay_hourly_predict(inp):
    pr = hourly_predict_scenario(inp["zone"], inp["date"], inp["before"], inp["usage"], inp.get("form", "plain"))
    return bool(pr), "; ".join(pr)


def run_c(case: Case, zone, tier):
    trs = transitions(zone, _years(tier, "c", zone) if tier == "quick" else [2011, 2021] + ([2024] if zone == "America/Nuuk" else []))
    if not trs:
        case.ground(True, "zone without DST: nothing to normalise")
        return
    case.inputs = []
    for date in trs:
        idx = hourly_index(zone, date)
        if any(l not in (23, 24, 25) for l in [len(v) for v in expected_slots(idx)[1].values()]):
            case.note(f"{zone} {date}: fractional shift, skipped")
            continue
        if any(t.minute for t in idx):
            case.note(f"{zone}: local stamps are not on the hour (fractional UTC offset): outside (c), the hourly data class re-stamps such input")
            case.ground(True, "zone with a fractional UTC offset: outside (c)")
            continue

        def run():
            cfg = dict(zone=zone, date=date, before=F.choose("before", [1, 0, 2]), usage=F.choose("usage", ["present", "absent", "missing on the transition day"]),
                       form=F.choose("form", ["plain", "microseconds", "late rows"]))
            return cfg, hourly_predict_scenario(**cfg)

        paths = case.explore(run)
        for p in paths:
            if p.outcome != "ret":
                case.rep["harness_errors"].append(f"hourly predict scenario raised {p.value!r}")
                continue
            cfg, pr = p.value
            rp = ("hourly-predict", (lambda c: lambda mdl: dict(c))(cfg))
            case.prove(p, not pr, "HourlyModel.predict returns one finite prediction per real hour of the reporting frame, on the real clock", replay=rp)
            case.regime("complete hourly predict across a transition")
    case.sample(dict(zone=zone, transitions=trs))


REPLAY = {"dst": replay_dst, "daily": replay_daily, "hourly-predict": replay_hourly_predict}


# ------------------------------------------------------------------ (t) _transform_dst alone: two transitions in one frame

T_DAYS, T_HOURS = 4, (0, 2, 23)


def _two_events_expected(y, events):
    """independent statement: slot (d, h) of a 23-hour day is dropped; after slot (d, h) of a 25-hour day the mean of that
    slot and the next one is inserted; every other slot passes through in order"""
    drop = {24 * d + h for kind, d, h in events if kind == "skip"}
    ins = {24 * d + h for kind, d, h in events if kind == "repeat"}
    out = []
    for pos in range(len(y)):
        if pos in drop:
            continue
        out.append(y[pos])
        if pos in ins:
            nxt = y[pos + 1] if pos + 1 < len(y) else y[pos]
            out.append((y[pos] + nxt) / 2)
    return out


def _two_events_run(events, y):
    # _get_dst_indices lists each kind in calendar order
    interp = sorted((d, h) for kind, d, h in events if kind == "skip")
    mean = sorted((d, h) for kind, d, h in events if kind == "repeat")
    return list(hm._transform_dst(y, (interp, mean)))


def replay_two_events(inp):
    events = [tuple(e) for e in inp["events"]]
    y = np.arange(24 * T_DAYS, dtype=float) * 1.5 + 0.25
    try:
        got = _two_events_run(events, y)
    except Exception as ex:
        return True, f"{type(ex).__name__}: {str(ex)[:120]} for events {events}"
    want = _two_events_expected(list(y), events)
    bad = len(got) != len(want) or any(float(a) != float(b) for a, b in zip(got, want))
    first = next((i for i, (a, b) in enumerate(zip(got, want)) if float(a) != float(b)), None)
    return bad, f"events {events}: {len(got)} values (expected {len(want)}), first difference at output position {first}"


def run_t(case):
    n = 24 * T_DAYS
    case.inputs = [z3.Real(f"y{i}") for i in range(n)]

    def run():
        k1, k2 = F.choose("kind1", ["skip", "repeat"]), F.choose("kind2", ["skip", "repeat"])
        d1 = F.choose("day1", list(range(T_DAYS)))
        d2 = F.choose("day2", [d for d in range(T_DAYS)])
        # two clock changes are months apart; in this miniature at least one whole day lies between them
        E.cur().assume(z3.Or(z3.Int("day1") - z3.Int("day2") >= 2, z3.Int("day2") - z3.Int("day1") >= 2))
        h1, h2 = F.choose("hour1", list(T_HOURS)), F.choose("hour2", list(T_HOURS))
        events = [(k1, d1, h1), (k2, d2, h2)]
        y = symarr([real(f"y{i}") for i in range(n)])
        return events, _two_events_run(events, y)

    paths = case.explore(run)
    for p in paths:
        if p.outcome != "ret":
            ev = "?"
            case.prove(p, False, "inverse clock normalisation of a frame with two transitions does not raise", replay=("two-events", lambda mdl: dict(events=[["repeat", 0, 2], ["skip", 2, 2]])))
            continue
        events, got = p.value
        rp = ("two-events", (lambda e: lambda mdl: dict(events=[list(x) for x in e]))(events))
        want = _two_events_expected([z3.Real(f"y{i}") for i in range(n)], events)
        ok = len(got) == len(want)
        cl = z3.And([to_real(lift(a)) == b for a, b in zip(got, want)] + [z3.BoolVal(ok)])
        case.prove(p, cl, "two transitions in one frame (either order): every real hour gets its slot's prediction, the skipped hour is absent, the repeated hour appears twice", replay=rp)
        first, second = sorted(events, key=lambda e: e[1])
        case.regime("repeated hour before a skipped hour in the same frame", first[0] == "repeat" and second[0] == "skip")
    case.sample(dict(function="_transform_dst", days=T_DAYS, hours=list(T_HOURS), scenarios=len(paths)))


REPLAY["two-events"] = replay_two_events


def run_case(case: Case, name: str):
    part, zone = name.split("|")
    if part == "t":
        return run_t(case)
    if part == "b":
        run_b(case, zone, case.tier)
    elif part == "c":
        run_c(case, zone, case.tier)
    else:
        run_a(case, zone, case.tier)
