"""Shared pieces for the hourly-model cases (C01, C02, C05): a stored HourlyModel document written by hand in the
layout of HourlyModel.to_dict() (fitting does not run in the pinned environment: BisectingKMeans/_validate_data), real
HourlyReportingData objects, snapshots of the model state, and affine stand-ins for the sklearn scalers so that a
symbolic usage column can flow through HourlyModel._predict."""
from __future__ import annotations

import json

import numpy as np
import pandas as pd

from opendsm.eemeter.models.hourly import settings as hs
from opendsm.eemeter.models.hourly.data import HourlyReportingData
from opendsm.eemeter.models.hourly.model import HourlyModel

EDGES = [-np.inf, 30.0, 50.0, 70.0, np.inf]
N_CLUSTERS = 2


def document(scaling="standardscaler", months=range(1, 13), tz="US/Pacific", seed=0, solar=False, annotated=False, extra=None, edge_bins=True):
    """stored hourly model; temporal clusters known for `months` x 7 weekdays (weekday -> 0, weekend -> 1)"""
    rng = np.random.default_rng(seed)
    nb = len(EDGES) - 1
    clusters = [[mo, d, int(d >= 5)] for mo in months for d in range(7)]
    cat = [f"temporal_cluster_{i}" for i in range(N_CLUSTERS)] + [f"temp_bin_{i}" for i in range(nb)]
    ts = ["temperature"] + (["ghi"] if solar else []) + ([extra] if extra else [])  # extra: a supplemental time-series column
    # 24 hourly values per time-series feature: temperature per bin, temperature per cluster, 2 edge bins x (pos, neg)
    # exponential terms (+ ghi for solar models); then the daily dummies
    nf = 24 * (nb + N_CLUSTERS + (4 if edge_bins else 0) + (1 if solar else 0) + (1 if extra else 0)) + len(cat)
    cls = hs.HourlySolarSettings if solar else hs.HourlyNonSolarSettings
    kw = dict(supplemental_time_series_columns=[extra]) if extra else {}
    if not edge_bins:  # a legal profile: no exponential edge-bin terms
        kw["temperature_bin"] = dict(include_edge_bins=False, edge_bin_rate=None, edge_bin_percent=None)
    st = json.loads(cls(scaling_method=scaling, **kw).model_dump_json())
    fs = {"temperature": [55.0, 18.0]}
    if solar:
        fs["ghi"] = [200.0, 150.0]
    if extra:
        fs[extra] = [0.5, 0.25]
    info = {"warnings": [], "disqualification": [], "error": {}, "baseline_timezone": tz, "version": "verif"}
    if annotated:
        info["warnings"] = [dict(qualified_name="eemeter.w", description="w", data={})]
        info["disqualification"] = [dict(qualified_name="eemeter.x", description="d", data={"a": 1.0})]
    return {"settings": st, "temporal_clusters": clusters, "temperature_bin_edges": list(EDGES),
            "temperature_edge_bin_coefficients": ({"0": {"t_a": 0.5, "t_b": 1.2, "k": 0.8, "a": 0.4}, str(nb - 1): {"t_a": 0.5, "t_b": -1.1, "k": 0.9, "a": 0.5}} if edge_bins else None),
            "ts_features": ts, "categorical_features": cat, "feature_scaler": fs, "catagorical_scaler": None, "y_scaler": [1.5, 0.7],
            "coefficients": rng.normal(0, 0.05, size=(24, nf)).tolist(), "intercept": rng.normal(0, 0.3, size=24).tolist(),
            "baseline_metrics": {"observed": {"mean": 1.5, "std": 0.5}, "predicted": {"mean": 1.5, "std": 0.4}, "residuals": {"mean": 0.0, "std": 0.2},
                                 "n": 8760.0, "cvrmse_adj": 0.35, "pnrmse_adj": 0.2}, "info": info}


def model(**kw):
    return HourlyModel.from_dict(document(**kw))


def weather(start, days, tz="US/Pacific", seed=1, usage=True, ghi=False, extra=None):
    idx = pd.date_range(pd.Timestamp(start).tz_localize(tz), (pd.Timestamp(start) + pd.Timedelta(days=days)).tz_localize(tz), freq="h", inclusive="left")
    rng = np.random.default_rng(seed)
    df = pd.DataFrame({"temperature": rng.normal(55, 15, len(idx))}, index=idx)
    if ghi:
        df["ghi"] = np.abs(rng.normal(200, 150, len(idx)))
    if usage:
        df["observed"] = np.abs(rng.normal(1.5, 0.5, len(idx))) + 0.1
    if extra:
        df[extra] = np.clip(np.random.default_rng(seed + 7).normal(0.5, 0.25, len(idx)), 0, 1)
    return df


def reporting(start, days, tz="US/Pacific", seed=1, usage=True, ghi=False, extra=None):
    return HourlyReportingData(weather(start, days, tz, seed, usage, ghi, extra), is_electricity_data=True)


def state(m):
    """everything a stored model consists of, read from the live object (not through to_dict)"""
    sc = m._feature_scaler
    ys = m._y_scaler
    loc = lambda s: getattr(s, "mean_", getattr(s, "center_", None))
    return dict(
        temporal_clusters=m._df_temporal_clusters.reset_index().values.tolist(),
        bin_edges=[float(x) for x in m._T_bin_edges], edge_coeffs=json.loads(json.dumps(m._T_edge_bin_coeffs)),
        ts_features=list(m._ts_features), categorical_features=list(m._categorical_features),
        feature_scaler=[np.asarray(loc(sc), dtype=float).tolist(), np.asarray(sc.scale_, dtype=float).tolist()],
        y_scaler=[np.asarray(loc(ys), dtype=float).tolist(), np.asarray(ys.scale_, dtype=float).tolist()],
        coef=np.asarray(m._model.coef_).tobytes().hex()[:64], intercept=np.asarray(m._model.intercept_).tolist(),
        warnings=[w.qualified_name for w in m.warnings], disqualification=[w.qualified_name for w in m.disqualification],
        timezone=str(m.baseline_timezone))


def state_diff(a, b):
    return [k for k in a if a[k] != b[k]]


class Affine:
    """stand-in for sklearn's StandardScaler / RobustScaler after fitting: x -> (x - loc) / scale on any array, including
    object arrays of symbolic values.  A call to fit() is recorded (a fitted model must never re-fit its scalers)."""

    def __init__(self, real_scaler):
        # StandardScaler stores mean_, RobustScaler center_: keep exactly the attribute the real object has
        self._loc_name = "mean_" if hasattr(real_scaler, "mean_") else "center_"
        setattr(self, self._loc_name, np.asarray(getattr(real_scaler, self._loc_name), dtype=float))
        self.scale_ = np.asarray(real_scaler.scale_, dtype=float)
        self.refits = 0

    @property
    def loc(self):
        return getattr(self, self._loc_name)

    def fit(self, X, *a, **k):
        """location re-estimated from the data as sklearn would (mean; the median of RobustScaler is abstracted by
        the mean as well: what matters is that the scaler now depends on the data it was handed)"""
        self.refits += 1
        X = np.asarray(X)
        good = [x for x in X.reshape(-1) if not (isinstance(x, float) and x != x)]
        setattr(self, self._loc_name, np.array([sum(good[1:], good[0]) / len(good)], dtype=object) if good else getattr(self, self._loc_name))
        return self

    def transform(self, X):
        out = (np.asarray(X) - self.loc) / self.scale_
        if out.dtype == object and out.ndim == 2 and out.shape[1] == 1:
            # pandas cannot take a 2-D object block as one column; hand the single column over as a symreal array
            from symv.symarray import SymArray
            return SymArray(list(out[:, 0]))
        return out

    def inverse_transform(self, X):
        return np.asarray(X) * self.scale_ + self.loc


# ---------------------------------------------------------------------------------------------------------------
# real fits.  The repository's bisecting k-means calls BaseEstimator._validate_data, which scikit-learn 1.6+ no longer
# has (it became sklearn.utils.validation.validate_data): HourlyModel.fit raises AttributeError in the pinned environment.
# The harness (not the repository) restores the old spelling, which makes a year of hourly data fit in about two seconds.

def enable_fit():
    from sklearn.base import BaseEstimator
    from sklearn.utils import validation as _v
    if not hasattr(BaseEstimator, "_validate_data") and hasattr(_v, "validate_data"):
        def _validate_data(self, *a, **k):
            return _v.validate_data(self, *a, **k)
        BaseEstimator._validate_data = _validate_data


def baseline_frame(noise=0.05, days=365, tz="US/Pacific", seed=0, gaps=(), solar=False):
    """a year of hourly data following a V-shaped temperature response; gaps: list of (column, first row, last row)"""
    idx = pd.date_range(pd.Timestamp("2021-01-01", tz=tz), periods=24 * days, freq="h")
    rng = np.random.default_rng(seed)
    k = np.arange(len(idx))
    T = 60 + 20 * np.sin(k * 2 * np.pi / (24 * 365)) + 5 * np.sin(k * 2 * np.pi / 24) + rng.normal(0, 1, len(idx))
    if noise == "spiky":  # nearly flat usage with rare large spikes: neither ratio can pass
        obs = 0.5 + 0.01 * rng.random(len(idx)) + (rng.random(len(idx)) < 0.02) * 100.0
    else:
        obs = 1 + 0.05 * np.abs(T - 60) + rng.normal(0, noise, len(idx))
    df = pd.DataFrame({"temperature": T, "observed": np.abs(obs) + 0.01}, index=idx)
    if solar:
        df["ghi"] = np.clip(400 * np.sin((k % 24 - 6) * np.pi / 12), 0, None)
    for col, a, b in gaps:
        df.iloc[a:b, df.columns.get_loc(col)] = np.nan
    return df


def fitted(noise=0.05, gaps=(), settings=None, **kw):
    from opendsm.eemeter.models.hourly.data import HourlyBaselineData
    enable_fit()
    data = HourlyBaselineData(baseline_frame(noise=noise, gaps=gaps, **kw), is_electricity_data=True)
    m = HourlyModel(settings=settings) if settings else HourlyModel()
    m.fit(data, ignore_disqualification=True)
    return m, data
