"""C02 - using a model or a data object never changes it (narrow claim, see DESIGN).

Executed symbolically:
 (a) the real DailyBaselineData / DailyReportingData constructors on symbolic frames (incl. the electricity zero->NaN path,
     reached by the solver choosing the value 0): the caller's frame is cell-identical afterwards; frames handed out by .df
     are independent copies;
 (b) DailyModel._predict / BillingModel.predict (aggregated): caller's frame untouched, stored parameters untouched,
     predict(A) after predict(B) term-identical to predict(A) on a fresh twin (2-call history);
 (c) fit()/predict() wrappers of the three families (numerics stubbed as in C04): the data object's warnings and
     disqualification lists are the same objects with the same content afterwards, for every metric value."""
from __future__ import annotations

import copy
import json

import numpy as np
import pandas as pd
import z3

import opendsm.eemeter.models.daily.data as dd
import opendsm.eemeter.models.daily.model as dm
import opendsm.eemeter.models.hourly.model as hm
from opendsm.eemeter.models.billing.model import BillingModel
from symv import engine as E
from symv.case import Case
from symv.proxies import NAN, SReal, is_nan, lift, model_env, real, to_real
from symv.symarray import SymArray, cells

from . import c04
from . import dailyframe as F
from . import dailyref as R
from . import dataclass as D

EXPLANATION = ("C02: frames and lists before/after the real constructors, from_series (Series/DataFrame, conventional/other labels, same/other timezone), "
               "billing_df accessor, _predict and the fit/predict wrappers; 2-call predict history.")
BOUNDS = {"quick": dict(rows="3-4 daily rows / 48 hourly rows", histories="2 predict calls", dq_lists="0..2",
                        from_series="4 daily + 96 hourly rows (daily), 3 bills + 90 daily rows (billing); both containers of the same form"),
          "thorough": dict(rows="3-4 daily rows / 48 hourly rows", histories="2 predict calls", dq_lists="0..2",
                           from_series="as quick, full product of meter form x temperature form x timezone")}
STUBS = ["_fit/_adaptive_fit/_predict of the gate cases as in C04", "SufficiencyCriteria._check_extreme_values -> no-op",
         "pandas.core.nanops._ensure_numeric passes symbolic reals through (billing_df groupby mean on an object column)"]
MODELS_USED = ["symreal ExtensionArray"]
ASSUMPTIONS = ["hourly model state (hourly-model/state): stored model written by hand in the to_dict() layout, concrete weather and usage; the reporting sets, usage present/absent and a GHI column are solver-chosen forks (2-call histories)",
               "hourly data classes: only the structural variants (columns present, role, zone, electricity flag) are quantified, on one concrete 4-day frame (hourly-data/ctor)",
               "call histories longer than two predict calls, and interleavings beyond fit(A) [predict(A)] fit(B) (metrics concrete), are outside the claim"]
EXPECTED_REGIMES = ["usage exactly 0 on electricity data", "poor fit appended to the model", "second predict after a different dataset",
                    "temperature handed over in another timezone", "columns already carry the conventional names", "hourly reporting data without a usage column",
                    "fit of another meter between serialisations of one model", "hourly model: second predict after a shorter reporting set"]


def ENCODED():
    import opendsm.eemeter.models.billing.data as bd
    return [dd._DailyData.__init__, dd._DailyData._set_data, dd._DailyData.df.fget, dm.DailyModel._predict, dm.DailyModel._initialize_data, BillingModel.predict,
            dm.DailyModel.fit, hm.HourlyModel.fit, hm.HourlyModel.predict, dd._DailyData.from_series.__func__, dd.DailyReportingData.from_series.__func__,
            bd.BillingReportingData.from_series.__func__, bd._BillingData.billing_df.fget]


def cases(tier, seed):
    out = [f"data/{k}/{e}" for k in ("daily", "hourly") for e in ("elec", "gas")] + ["predict/frame", "predict/history", "predict/billing-agg"]
    out += [f"gate/{f}" for f in ("daily", "billing", "hourly")] + ["gate/hourly-predict"]
    out += [f"series/{fam}/{role}" for fam in ("daily", "billing") for role in ("baseline", "reporting")] + ["accessor/billing_df", "hourly-data/ctor", "interleave/daily", "interleave/billing", "refit/daily", "refit/billing", "hourly-model/state", "caltrack/state", "legacy20/history"]
    return out


def snap(df):
    return dict(cols=list(df.columns), index=list(df.index), dtypes=[str(t) for t in df.dtypes], cells={c: cells(df[c]) for c in df.columns})


def same(a, b):
    if a["cols"] != b["cols"] or a["index"] != b["index"] or a["dtypes"] != b["dtypes"]:
        return False
    for c in a["cols"]:
        for x, y in zip(a["cells"][c], b["cells"][c]):
            if not ((x is y) or (is_nan(x) and is_nan(y)) or (not isinstance(x, SReal) and not isinstance(y, SReal) and x == y)):
                return False
    return True


def build_data(kind, elec, n, sym, env=None, zero=()):
    if kind == "daily":
        idx = pd.date_range("2021-03-12", periods=n, freq="D", tz="US/Pacific")
    else:
        idx = pd.date_range("2021-03-13", periods=n, freq="h", tz="US/Pacific")
    obs = D.col("o", n, (), sym, env, zero_pos=zero)
    temp = D.col("T", n, {1}, sym, env)
    df = pd.DataFrame({"observed": obs, "temperature": temp}, index=idx)
    return df


def replay_data(inp):
    import logging
    logging.disable(logging.CRITICAL)
    df = build_data(inp["kind"], inp["elec"], inp["n"], False, inp["env"])
    before = df.copy(deep=True)
    d = dd.DailyBaselineData(df, is_electricity_data=inp["elec"])
    pr = []
    if not df.equals(before) or list(df.columns) != list(before.columns):
        pr.append("caller's frame was modified by the constructor")
    a = d.df
    a.iloc[0, a.columns.get_loc("observed")] = 12345.0
    if d.df["observed"].iloc[0] == 12345.0:
        pr.append("frame handed out by .df is not an independent copy")
    return bool(pr), "; ".join(pr)


def run_data(case, kind, elec):
    n = (4 if kind == "daily" else 48)
    elec = elec == "elec"
    case.inputs = [z3.Real(f"o{i}") for i in range(n)] + [z3.Real(f"T{i}") for i in range(n)]

    def run():
        eng = E.cur()
        if elec and kind == "hourly":
            # keep the zero test of the electricity path to 3 designated readings (every other reading is assumed non-zero)
            for i in range(3, n):
                eng.assume(z3.Real(f"o{i}") != 0)
        df = build_data(kind, elec, n, True)
        before = snap(df)
        try:
            d = dd.DailyBaselineData(df, is_electricity_data=elec)
        except (ValueError, AttributeError) as ex:  # e.g. zeros turn a 4-row frame into "billing" cadence: a legitimate refusal; the frame must still be intact
            return before, snap(df), True
        after = snap(df)
        h1 = d.df
        h1_id = h1 is d._df
        h1.iloc[0, h1.columns.get_loc("temperature")] = 999.0
        h2 = d.df
        indep = not h1_id and not (not is_nan(cells(h2["temperature"])[0]) and not isinstance(cells(h2["temperature"])[0], SReal) and cells(h2["temperature"])[0] == 999.0)
        return before, after, indep

    with D.symbolic_dataclasses():
        paths = case.explore(run)
    for p in paths:
        if p.outcome != "ret":
            case.rep["harness_errors"].append(f"data class raised {p.value!r} ({kind})")
            continue
        before, after, indep = p.value
        rp = ("data", lambda mdl: dict(kind=kind, elec=elec, n=n, env=model_env(mdl, case.inputs)))
        case.twin(p)
        case.prove(p, same(before, after), "the data class never modifies the caller's frame", replay=rp)
        case.prove(p, indep, "frames handed out by a data object are independent copies", replay=rp)
    if elec:
        case.regime("usage exactly 0 on electricity data", any(True for p in paths if any(z3.is_eq(c) and "o" in str(c) and "== 0" in str(c) for c in p.pc)) or
                    case.reach("z", [z3.Real("o0") == 0]) is not None)
    case.sample(dict(kind=kind, electricity=elec, rows=n, paths=len(paths)))


# ------------------------------------------------------------------ from_series / accessors

FORMS = ["series-named", "series-other", "frame-named", "frame-other"]


def snap_any(x):
    """snapshot of a caller-owned Series/DataFrame including what a tz conversion or relabelling would change"""
    if x is None:
        return None
    f = x.to_frame(name="col") if isinstance(x, pd.Series) else x
    s = snap(f)
    s.update(kind=type(x).__name__, tz=str(x.index.tz), index_name=x.index.name, index_dtype=str(x.index.dtype),
             labels=[str(x.name)] if isinstance(x, pd.Series) else [str(c) for c in x.columns])
    return s


def same_any(a, b):
    if a is None or b is None:
        return a is b
    return same(a, b) and all(a[k] == b[k] for k in ("kind", "tz", "index_name", "index_dtype", "labels"))


def series_inputs(fam, mform, tform, ttz, sym, env=None):
    from . import c08
    zone = "US/Pacific"
    if fam == "daily":
        midx = pd.date_range("2021-03-12", periods=4, freq="D", tz=zone)  # spans the spring DST change
        tidx = pd.date_range("2021-03-12", "2021-03-16", freq="h", tz=zone, inclusive="left")
        mvals = D.col("o", len(midx), (), sym, env)
    else:
        midx = c08.billing_index(zone, "30-31-28")
        tidx = pd.date_range(midx[0], midx[-1], freq="D")
        k = len(midx) - 1
        vals = [real(f"o{i}") if sym else float(env.get(f"o{i}", 100.0)) for i in range(k)] + [float("nan")]
        mvals = SymArray(vals) if sym else np.array(vals, dtype=float)
    tvals = D.col("T", len(tidx), {1}, sym, env)
    if ttz == "utc":
        tidx = tidx.tz_convert("UTC")

    def wrap(vals, idx, form, conventional):
        sr = pd.Series(vals, index=idx, name=conventional if form.endswith("named") else "value")
        return sr if form.startswith("series") else sr.to_frame()
    meter = None if mform == "none" else wrap(mvals, midx, mform, "observed")
    temp = wrap(tvals, tidx, tform, "temperature")
    return meter, temp


def series_class(fam, role):
    import opendsm.eemeter.models.billing.data as bd
    return {("daily", "baseline"): dd.DailyBaselineData, ("daily", "reporting"): dd.DailyReportingData,
            ("billing", "baseline"): bd.BillingBaselineData, ("billing", "reporting"): bd.BillingReportingData}[(fam, role)]


def replay_series(inp):
    import logging
    logging.disable(logging.CRITICAL)
    meter, temp = series_inputs(inp["fam"], inp["mform"], inp["tform"], inp["ttz"], False, inp["env"])
    bm, bt = (None if meter is None else meter.copy(deep=True)), temp.copy(deep=True)
    cls = series_class(inp["fam"], inp["role"])
    try:
        cls.from_series(meter, temp, is_electricity_data=False)
    except ValueError:
        pass
    pr = []
    for who, a, b in (("meter", bm, meter), ("temperature", bt, temp)):
        if a is None:
            continue
        lab = lambda x: [str(x.name)] if isinstance(x, pd.Series) else [str(c) for c in x.columns]
        if not a.equals(b) or str(a.index.tz) != str(b.index.tz) or lab(a) != lab(b) or a.index.name != b.index.name:
            pr.append(f"from_series changed the caller's {who} data ({type(a).__name__}, tz {a.index.tz} -> {b.index.tz}, labels {lab(a)} -> {lab(b)})")
    return bool(pr), "; ".join(pr)


def run_series(case, fam, role):
    cls = series_class(fam, role)
    n_m = 4 if fam == "daily" else 3
    n_t = 96 if fam == "daily" else 90
    case.inputs = [z3.Real(f"o{i}") for i in range(n_m)] + [z3.Real(f"T{i}") for i in range(n_t)]

    def run():
        if case.tier == "thorough":  # full product of the two containers' forms
            mform = F.choose("meter_form", FORMS + (["none"] if role == "reporting" else []))
            tform = F.choose("temp_form", FORMS)
        else:  # both containers of the same form (plus the temperature-only reporting call)
            tform = F.choose("temp_form", FORMS)
            mform = F.choose("meter_none", ["none", tform]) if role == "reporting" else tform
        ttz = F.choose("temp_tz", ["same", "utc"])
        meter, temp = series_inputs(fam, mform, tform, ttz, True)
        b = (snap_any(meter), snap_any(temp))
        refused = False
        try:
            d = cls.from_series(meter, temp, is_electricity_data=False)
        except ValueError:
            refused = True  # a refusal must leave the inputs intact as well
        a = (snap_any(meter), snap_any(temp))
        return (mform, tform, ttz), b, a, refused

    with D.symbolic_dataclasses():
        paths = case.explore(run)
    seen = set()
    for p in paths:
        if p.outcome != "ret":
            case.rep["harness_errors"].append(f"{cls.__name__}.from_series raised {p.value!r}")
            continue
        var, b, a, refused = p.value
        seen.add(var)
        rp = ("series", (lambda v: lambda mdl: dict(fam=fam, role=role, mform=v[0], tform=v[1], ttz=v[2], env=model_env(mdl, case.inputs)))(var))
        case.twin(p)
        case.prove(p, same_any(b[0], a[0]), "from_series never modifies the caller's meter Series/DataFrame (values, labels, index, timezone)", replay=rp)
        case.prove(p, same_any(b[1], a[1]), "from_series never modifies the caller's temperature Series/DataFrame (values, labels, index, timezone)", replay=rp)
        case.regime("temperature handed over in another timezone", var[2] == "utc")
        case.regime("columns already carry the conventional names", var[0].endswith("named") and var[1].endswith("named"))
    case.sample(dict(family=fam, role=role, variants=len(seen), paths=len(paths)))


def _billing_object(sym, env=None):
    from . import c08
    import opendsm.eemeter.models.billing.data as bd
    meter, temp = series_inputs("billing", "series-named", "series-named", "same", sym, env)
    return bd.BillingBaselineData.from_series(meter, temp, is_electricity_data=False)


def replay_accessor(inp):
    import logging
    logging.disable(logging.CRITICAL)
    d = _billing_object(False, inp["env"])
    before = d._df.copy(deep=True)
    first = d.billing_df
    pr = []
    if list(d._df.columns) != list(before.columns) or not d._df.equals(before):
        pr.append(f"reading billing_df changed the data object (columns {list(before.columns)} -> {list(d._df.columns)})")
    if first is not None and len(first):
        keep = first.copy(deep=True)
        first.iloc[0, first.columns.get_loc("temperature")] = 12345.0
        if not d.billing_df.equals(keep):
            pr.append("frame handed out by billing_df is not an independent copy")
    if list(d.df.columns) != list(before.columns):
        pr.append("df handed out after billing_df has other columns")
    return bool(pr), "; ".join(pr)


def run_accessor(case):
    """reading the derived billing view leaves the object as it was, and hands out independent frames"""
    import pandas.core.nanops as nanops
    from symv.carriers import patched
    import opendsm.eemeter.models.billing.data as bd
    case.inputs = [z3.Real(f"o{i}") for i in range(3)] + [z3.Real(f"T{i}") for i in range(90)]
    _en = nanops._ensure_numeric

    def run():
        d = _billing_object(True)
        b = snap(d._df)
        first = d.billing_df
        a = snap(d._df)
        indep = True
        if first is not None and len(first):
            want = snap(first)
            first.iloc[0, first.columns.get_loc("temperature")] = 999.0
            again = snap(d.billing_df)
            indep = same(want, again) or all((x is y) or (is_nan(x) and is_nan(y)) or (isinstance(x, SReal) and isinstance(y, SReal) and z3.eq(z3.simplify(lift(x)), z3.simplify(lift(y)))) or
                                             (not isinstance(x, SReal) and not isinstance(y, SReal) and x == y)
                                             for c in want["cols"] for x, y in zip(want["cells"][c], again["cells"][c])) and want["cols"] == again["cols"] and want["index"] == again["index"]
        after_df = snap(d.df)
        return b, a, indep, after_df["cols"] == b["cols"]

    with D.symbolic_dataclasses(), patched(nanops, _ensure_numeric=lambda x: x if isinstance(x, SReal) else _en(x)):
        paths = case.explore(run)
    for p in paths:
        if p.outcome != "ret":
            case.rep["harness_errors"].append(f"billing_df raised {p.value!r}")
            continue
        b, a, indep, cols_ok = p.value
        rp = ("accessor", lambda mdl: dict(env=model_env(mdl, case.inputs)))
        case.twin(p)
        case.prove(p, same(b, a) and cols_ok, "reading billing_df leaves the data object's frame unchanged", replay=rp)
        case.prove(p, indep, "frames handed out by billing_df are independent copies", replay=rp)
    case.sample(dict(accessor="billing_df", paths=len(paths)))


# ------------------------------------------------------------------ hourly data classes (values concrete)

HOURLY_COLS = [["temperature"], ["temperature", "ghi"], ["temperature", "observed"], ["temperature", "observed", "ghi"]]


def hourly_scenario(role, cols, zone, elec):
    """real HourlyBaselineData / HourlyReportingData constructor on a concrete 4-day frame (zero, NaN and DST day included)"""
    import logging
    logging.disable(logging.CRITICAL)
    import opendsm.eemeter.models.hourly.data as hd
    idx = pd.date_range("2021-03-12", periods=96, freq="h", tz=zone)
    rng = np.random.default_rng(7)
    df = pd.DataFrame({c: rng.normal(50, 10, len(idx)) for c in cols}, index=idx)
    if "observed" in cols:
        df.iloc[5, df.columns.get_loc("observed")] = 0.0
        df.iloc[7, df.columns.get_loc("observed")] = np.nan
    df.iloc[9, df.columns.get_loc("temperature")] = np.nan
    before = df.copy(deep=True)
    cls = hd.HourlyBaselineData if role == "baseline" else hd.HourlyReportingData
    pr = []
    try:
        d = cls(df, is_electricity_data=elec)
    except ValueError:
        d = None  # e.g. baseline data without usage: a refusal must leave the caller's frame intact as well
    if list(df.columns) != list(before.columns) or not df.equals(before) or str(df.index.tz) != str(before.index.tz):
        pr.append(f"{cls.__name__} changed the caller's frame: columns {list(before.columns)} -> {list(df.columns)}")
    if d is not None:
        a = d.df
        keep = a.copy(deep=True)
        a.iloc[0, a.columns.get_loc("temperature")] = 12345.0
        if not d.df.equals(keep):
            pr.append(f"{cls.__name__}.df is not an independent copy")
    return pr


def replay_hourly_data(inp):
    pr = hourly_scenario(inp["role"], inp["cols"], inp["zone"], inp["elec"])
    return bool(pr), "; ".join(pr)


def run_hourly_data(case):
    """the hourly data classes cannot carry symbolic values (autocorrelation interpolation); the structural variants
    (columns present, role, zone, electricity flag) are solver-chosen forks, the values are concrete"""
    case.inputs = []

    def run():
        cfg = dict(role=F.choose("role", ["baseline", "reporting"]), cols=F.choose("cols", HOURLY_COLS), zone=F.choose("zone", ["US/Pacific", "UTC"]),
                   elec=F.choose("elec", [True, False]))
        return cfg, hourly_scenario(**cfg)

    paths = case.explore(run)
    for p in paths:
        if p.outcome != "ret":
            case.rep["harness_errors"].append(f"hourly data class raised {p.value!r}")
            continue
        cfg, pr = p.value
        rp = ("hourly-data", (lambda c: lambda mdl: dict(c))(cfg))
        case.prove(p, not pr, "the hourly data classes never modify the caller's frame and hand out independent copies", replay=rp)
        case.regime("hourly reporting data without a usage column", cfg["role"] == "reporting" and "observed" not in cfg["cols"])
    case.sample(dict(variants=len(paths)))


# ------------------------------------------------------------------ interleaved fits of other meters

def interleave_scenario(fam, poor_a, poor_b, predict_between):
    """model A is fit and serialised; another model object B is fit on another meter (other metrics); A must still
    serialise to the same document and report the same error metrics.  fit() runs through the real tail of _fit
    (everything numerical before it stubbed on the instance, as in C04's persistfit)"""
    import types as _t
    from opendsm.eemeter.models.daily.parameters import ModelCoefficients

    def fitted(metrics, intercept):
        Model = c04.FAM[fam][0]
        m = Model()
        data = c04.pick_data(fam, "baseline", 0, "US/Pacific")
        m._initialize_data = lambda md: (md, None)
        m._combinations = lambda: ["fw-su_sh_wi"]
        m._components = lambda: ["fw-su_sh_wi"]
        m._fit_components = lambda: {}
        m._get_error_metrics = lambda combo: metrics
        m._best_combination = lambda print_out=False: "fw-su_sh_wi"
        sub = _t.SimpleNamespace(T_min=0.0, T_max=100.0, T_min_seg=5.0, T_max_seg=95.0, f_unc=1.0,
                                 named_coeffs=ModelCoefficients(model_type="tidd", intercept=intercept))
        m._final_fit = lambda combo: {"fw-su_sh_wi": sub}
        m.fit(data, ignore_disqualification=True)
        return m
    a = fitted((0.11, 0.12, 0.13, 2.0 if poor_a else 0.14, 0.15), 10.0)
    doc_a, err_a, dq_a = json.dumps(a.to_dict(), sort_keys=True, default=str), dict(a.error), [w.qualified_name for w in a.disqualification]
    if predict_between:
        idx = pd.date_range("2021-01-01", periods=3, freq="D", tz="US/Pacific")
        a.__dict__.pop("_initialize_data", None)  # the fit-time stand-in; predict uses the real method
        a._predict(pd.DataFrame({"temperature": [40.0, 50.0, 60.0]}, index=idx))
    b = fitted((1.11, 1.12, 1.13, 3.0 if poor_b else 0.24, 1.15), 20.0)
    pr = []
    if json.dumps(a.to_dict(), sort_keys=True, default=str) != doc_a:
        pr.append("model A serialises differently after another model object was fit")
    if dict(a.error) != err_a:
        pr.append(f"model A reports error metrics {dict(a.error)} after model B was fit (before: {err_a})")
    if [w.qualified_name for w in a.disqualification] != dq_a:
        pr.append("model A's disqualifications changed after model B was fit")
    if a.error is b.error or a.params is b.params:
        pr.append("two model objects share their error/parameter objects")
    return pr


def refit_scenario(fam, poor_a, poor_b, predict_first, shared_doc):
    """ONE model object is fit on meter A, (predicts), is fit again on meter B and predicts: everything it then says must
    be what a model object that only ever saw meter B says.  shared_doc: two model objects loaded from the same stored
    dict; refitting one must leave the other - and the caller's dict - alone."""
    import copy
    import types as _t
    from opendsm.eemeter.models.daily.parameters import ModelCoefficients
    Model = c04.FAM[fam][0]
    idx = pd.date_range("2021-01-01", periods=3, freq="D", tz="US/Pacific")
    frame = pd.DataFrame({"temperature": [40.0, 50.0, 60.0]}, index=idx)

    def fit(m, metrics, intercept):
        data = c04.pick_data(fam, "baseline", 0, "US/Pacific")
        m._initialize_data = lambda md: (md, None)
        m._combinations = lambda: ["fw-su_sh_wi"]
        m._components = lambda: ["fw-su_sh_wi"]
        cv = metrics
        comp = _t.SimpleNamespace(wSSE=4 * cv * cv, N=4, resid=np.array([cv, -cv, cv, -cv]), obs=np.array([0.5, 1.5, 0.5, 1.5]))
        m._fit_components = lambda: {"fw-su_sh_wi": comp}
        m._best_combination = lambda print_out=False: "fw-su_sh_wi"
        sub = _t.SimpleNamespace(T_min=0.0, T_max=100.0, T_min_seg=5.0, T_max_seg=95.0, f_unc=1.0,
                                 named_coeffs=ModelCoefficients(model_type="tidd", intercept=intercept))
        m._final_fit = lambda combo: {"fw-su_sh_wi": sub}
        m.fit(data, ignore_disqualification=True)
        m.__dict__.pop("_initialize_data", None)  # predict uses the real method
        return m

    def view(m):
        out = m._predict(frame.copy())
        # documents are compared as data (a loaded model writes 1.0 where a new one writes its int default 1)
        return dict(doc=json.loads(json.dumps(m.to_dict(), sort_keys=True, default=str)), error=dict(m.error), dq=[w.qualified_name for w in m.disqualification],
                    predicted=out["predicted"].to_numpy().tolist(), reloaded=Model.from_json(m.to_json())._predict(frame.copy())["predicted"].to_numpy().tolist())
    cv_a, cv_b = (2.0 if poor_a else 0.2), (3.0 if poor_b else 0.3)
    pr = []
    if shared_doc:
        stored = fit(Model(), cv_a, 10.0).to_dict()
        before = copy.deepcopy(stored)
        one, two = Model.from_dict(stored), Model.from_dict(stored)
        v_two = view(two)
        fit(one, cv_b, 20.0)
        if view(two) != v_two:
            pr.append("a model loaded from a stored dict changed when ANOTHER model loaded from the same dict was fit again")
        if json.dumps(stored, sort_keys=True, default=str) != json.dumps(before, sort_keys=True, default=str):
            pr.append("the caller's stored dict was rewritten by fitting a model loaded from it")
        m = one
    else:
        m = fit(Model(), cv_a, 10.0)
        if predict_first:
            m._predict(frame.copy())
        fit(m, cv_b, 20.0)
    # reference: an object with the same kind of origin that only ever saw the second meter (a loaded model writes its
    # settings as floats, a new one as the declared int defaults - textual, not behavioural)
    ref = Model.from_dict(copy.deepcopy(before)) if shared_doc else Model()
    want, got = view(fit(ref, cv_b, 20.0)), view(m)
    for k in want:
        if got[k] != want[k]:
            pr.append(f"after a second fit the model's {k} is {str(got[k])[:90]}; a model that only saw the second meter gives {str(want[k])[:90]}")
    return pr


def replay_refit(inp):
    pr = refit_scenario(inp["fam"], inp["poor_a"], inp["poor_b"], inp["predict_first"], inp["shared_doc"])
    return bool(pr), "; ".join(pr[:3])


def run_refit(case, fam):
    case.inputs = []

    def run():
        cfg = dict(fam=fam, poor_a=F.choose("poor_a", [False, True]), poor_b=F.choose("poor_b", [False, True]), predict_first=F.choose("predict_first", [False, True]),
                   shared_doc=F.choose("shared_doc", [False, True]))
        return cfg, refit_scenario(**cfg)

    paths = case.explore(run)
    for p in paths:
        if p.outcome != "ret":
            case.rep["harness_errors"].append(f"refit scenario raised {p.value!r}")
            continue
        cfg, pr = p.value
        rp = ("refit", (lambda c: lambda mdl: dict(c))(cfg))
        case.prove(p, not pr, "a model object fit a second time (or loaded from a shared dict and refit) behaves as one that only saw the last meter; other objects and the caller's dict are untouched", replay=rp)
        case.regime("second fit of one model object")
    case.sample(dict(family=fam, histories=len(paths)))


def caltrack_state_scenario(first, first_usage, second, second_usage, ctor_usage, elec, holes=False):
    """CalTRACK hourly family: predict() leaves the model's stored form alone, a prediction does not depend on what was
    predicted before with the same object, predict() leaves the data object's frame alone, and the data classes leave the
    caller's frame alone"""
    import logging
    logging.disable(logging.CRITICAL)
    from . import caltrackref as CT
    pr = []
    m = CT.model(holes=holes)  # holes: segments without baseline data (null occupancy columns), as after a short baseline
    doc0 = m.to_json()
    a = CT.reporting(first, first_usage)
    fa = a.df.copy(deep=True)
    m.predict(a)
    if not a.df.equals(fa) or list(a.df.columns) != list(fa.columns):
        pr.append("predict changed the reporting data object's frame")
    if m.to_json() != doc0:
        pr.append(f"the model serialises differently after predicting {first}")
    got = m.predict(CT.reporting(second, second_usage))
    want = CT.model(holes=holes).predict(CT.reporting(second, second_usage))
    for col in ("predicted", "predicted_uncertainty"):
        if list(got.index) != list(want.index) or not CT.same(got[col], want[col]):
            pr.append(f"{col} for {second} depends on having predicted {first} before")
    if m.to_json() != doc0:
        pr.append("the model serialises differently after two predictions")
    # data classes: the caller's frame
    for cls in (CT.HourlyReportingData, CT.HourlyBaselineData):
        if cls is CT.HourlyBaselineData and ctor_usage == "absent":
            continue
        df = CT.frame("june", ctor_usage)
        before, cols = df.copy(deep=True), list(df.columns)
        cls(df, is_electricity_data=elec)
        if list(df.columns) != cols or not df.equals(before):
            pr.append(f"{cls.__name__}(frame with usage '{ctor_usage}', electricity={elec}) changed the caller's frame (columns {cols} -> {list(df.columns)})")
    return pr


def replay_caltrack_state(inp):
    pr = caltrack_state_scenario(inp["first"], inp["first_usage"], inp["second"], inp["second_usage"], inp["ctor_usage"], inp["elec"], inp.get("holes", False))
    return bool(pr), "; ".join(pr[:3])


def run_caltrack_state(case):
    from . import caltrackref as CT
    case.inputs = []

    def run():
        cfg = dict(first=F.choose("first", list(CT.SPANS)), first_usage=F.choose("first_usage", ["present", "absent"]), second=F.choose("second", list(CT.SPANS)[:2]),
                   second_usage=F.choose("second_usage", ["present", "absent"]), ctor_usage=F.choose("ctor_usage", ["absent", "with-zeros", "present"]), elec=F.choose("elec", [True, False]),
                   holes=F.choose("holes", [False, True]))
        return cfg, caltrack_state_scenario(**cfg)

    paths = case.explore(run)
    for p in paths:
        if p.outcome != "ret":
            case.rep["harness_errors"].append(f"CalTRACK state scenario raised {p.value!r}")
            continue
        cfg, pr = p.value
        case.prove(p, not pr, "CalTRACK hourly: predict leaves model and data object alone, no dependence on earlier predictions, data classes leave the caller's frame alone",
                   replay=("caltrack-state", (lambda c: lambda mdl: dict(c))(cfg)))
        case.regime("CalTRACK data class handed a frame without usage / with zero readings", cfg["ctor_usage"] in ("absent", "with-zeros"))
    case.sample(dict(family="CalTRACK hourly", histories=len(paths)))


LEGACY20 = {"model_type": "cdd_hdd", "model_params": {"intercept": 10.0, "beta_hdd": 1.5, "beta_cdd": 0.8, "heating_balance_point": 55.0, "cooling_balance_point": 68.0}}


def legacy20_scenario(order, family):
    """a model read from a legacy (2.0) document predicts several reporting sets (different zones, with/without usage) on ONE
    object: each outcome (prediction or refusal) is the one a freshly read object gives, and the object is unchanged"""
    import logging
    logging.disable(logging.CRITICAL)
    from opendsm.eemeter.models.billing.data import BillingReportingData
    from opendsm.eemeter.models.billing.model import BillingModel
    from opendsm.eemeter.models.daily.data import DailyReportingData
    Model, Data = (BillingModel, BillingReportingData) if family == "billing" else (dm.DailyModel, DailyReportingData)
    sets = {}
    for name, tz, n in (("utc-week", "UTC", 7), ("pacific-month", "US/Pacific", 30), ("utc-month", "UTC", 31), ("berlin-week", "Europe/Berlin", 7)):
        idx = pd.date_range("2021-05-03", periods=n, freq="D", tz=tz)
        sets[name] = pd.DataFrame({"temperature": 50.0 + 3.0 * (np.arange(n) % 9), "observed": 20.0 + np.arange(n) % 5}, index=idx)

    def outcome(m, name):
        try:
            out = m.predict(Data(sets[name].copy(), is_electricity_data=True))
            return ("frame", out["predicted"].to_numpy(dtype=float).tobytes())
        except Exception as ex:
            return ("raise", type(ex).__name__)

    def state(m):
        return (str(m.baseline_timezone), json.dumps(m.params.model_dump(), sort_keys=True, default=str), [w.qualified_name for w in m.warnings], [w.qualified_name for w in m.disqualification])
    shared = Model.from_2_0_dict(json.loads(json.dumps(LEGACY20)))
    s0 = state(shared)
    pr = []
    for name in order:
        got, want = outcome(shared, name), outcome(Model.from_2_0_dict(json.loads(json.dumps(LEGACY20))), name)
        if got != want:
            pr.append(f"{name} after {order[:order.index(name)]}: {got[0]} {got[1] if got[0] == 'raise' else ''} on the shared object, {want[0]} {want[1] if want[0] == 'raise' else ''} on a fresh one")
    if state(shared) != s0:
        pr.append(f"predict changed the model object (baseline timezone {s0[0]} -> {state(shared)[0]})")
    return pr


def replay_legacy20(inp):
    pr = legacy20_scenario(inp["order"], inp["family"])
    return bool(pr), "; ".join(pr[:3])


def run_legacy20(case):
    case.inputs = []
    names = ["utc-week", "pacific-month", "utc-month", "berlin-week"]

    def run():
        first = F.choose("first", names)
        second = F.choose("second", [n for n in names])
        family = "daily"  # BillingModel.from_2_0_dict cannot be called at all (its constructor takes no `model` argument): nothing to check
        order = [first] + ([second] if second != first else []) + [n for n in names if n not in (first, second)][:1]
        return dict(order=order, family=family), legacy20_scenario(order, family)

    paths = case.explore(run)
    for p in paths:
        if p.outcome != "ret":
            case.rep["harness_errors"].append(f"legacy-2.0 scenario raised {p.value!r}")
            continue
        cfg, pr = p.value
        case.prove(p, not pr, "a model read from a legacy (2.0) document: predictions and refusals do not depend on what was predicted before; predict leaves the object unchanged",
                   replay=("legacy20", (lambda c: lambda mdl: dict(c))(cfg)))
        case.regime("legacy (2.0) model predicting reporting sets of different zones")
    case.sample(dict(entry="DailyModel/BillingModel.from_2_0_dict + predict histories", histories=len(paths)))


def replay_interleave(inp):
    pr = interleave_scenario(inp["fam"], inp["poor_a"], inp["poor_b"], inp["predict_between"])
    return bool(pr), "; ".join(pr)


def run_interleave(case, fam):
    case.inputs = []

    def run():
        cfg = dict(fam=fam, poor_a=F.choose("poor_a", [False, True]), poor_b=F.choose("poor_b", [False, True]), predict_between=F.choose("predict_between", [False, True]))
        return cfg, interleave_scenario(**cfg)

    paths = case.explore(run)
    for p in paths:
        if p.outcome != "ret":
            case.rep["harness_errors"].append(f"interleave scenario raised {p.value!r}")
            continue
        cfg, pr = p.value
        rp = ("interleave", (lambda c: lambda mdl: dict(c))(cfg))
        case.prove(p, not pr, "fitting another model object leaves a fitted model's document, metrics and disqualifications unchanged", replay=rp)
        case.regime("fit of another meter between serialisations of one model")
    case.sample(dict(family=fam, histories=len(paths)))


# ------------------------------------------------------------------ hourly model state across predict calls

HM_FIRST = {"late May into June": ("2021-05-28", 10), "one week in June": ("2021-06-07", 7), "two days in January": ("2021-01-04", 2), "DST weekend": ("2021-03-12", 4)}
HM_SECOND = {"sixty days from January": ("2021-01-01", 60), "June and July": ("2021-06-01", 61)}


def hourly_state_scenario(first, first_usage, second, second_usage, ghi, table="complete"):
    """stored hourly model (every month x weekday known): predict(first set), then predict(second set); the model object
    must be what it was (state read from the live object) and the second prediction must be the one a freshly loaded
    model gives"""
    import logging
    logging.disable(logging.CRITICAL)
    from . import hourlyref as H
    # table: the (month, weekday) combinations the fitted cluster table knows; "no-june": a baseline that lacked June
    months = range(1, 13) if table == "complete" else [mo for mo in range(1, 13) if mo != 6]
    fresh = lambda: H.model(months=months)
    m = fresh()
    s0 = H.state(m)
    try:
        m.predict(H.reporting(*HM_FIRST[first], usage=first_usage, ghi=ghi))
    except ValueError:
        # a reporting set with usage that lies entirely in calendar combinations the model has no cluster for cannot be
        # predicted at all (cdist on an empty table): not a question of side effects; the model must still be what it was
        if H.state_diff(s0, H.state(m)) not in ([], ["warnings"]):
            return [f"a predict() that raised changed the fitted model: {H.state_diff(s0, H.state(m))}"]
        return []
    s1 = H.state(m)
    pr = []
    changed = H.state_diff(s0, s1)
    if changed:
        detail = f"temporal-cluster table {len(s0['temporal_clusters'])} -> {len(s1['temporal_clusters'])} rows" if "temporal_clusters" in changed else ""
        pr.append(f"predict() on {first} changed the fitted model: {changed} {detail}")
    try:
        got = m.predict(H.reporting(*HM_SECOND[second], seed=3, usage=second_usage))["predicted"].to_numpy(dtype=float)
    except Exception as ex:
        got = None
        pr.append(f"second predict ({second}) on the same model object raised {type(ex).__name__}: {str(ex)[:100]}")
    want = fresh().predict(H.reporting(*HM_SECOND[second], seed=3, usage=second_usage))["predicted"].to_numpy(dtype=float)
    if got is not None and not (got.shape == want.shape and np.array_equal(got, want, equal_nan=True)):
        n = int((~((got == want) | (np.isnan(got) & np.isnan(want)))).sum()) if got.shape == want.shape else -1
        pr.append(f"prediction for {second} depends on the earlier predict of {first}: {n} of {len(want)} hours differ from a freshly loaded model")
    return pr


def replay_hourly_state(inp):
    pr = hourly_state_scenario(inp["first"], inp["first_usage"], inp["second"], inp["second_usage"], inp["ghi"], inp.get("table", "complete"))
    known_only = bool(pr) and inp["ghi"] and all("['warnings']" in x for x in pr)
    return bool(pr), "; ".join(pr)


def run_hourly_state(case):
    case.inputs = []

    def run():
        cfg = dict(first=F.choose("first", list(HM_FIRST)), first_usage=F.choose("first_usage", [True, False]),
                   second=F.choose("second", list(HM_SECOND)), second_usage=F.choose("second_usage", [True, False]), ghi=F.choose("ghi", [False, True]),
                   table=F.choose("table", ["complete", "no-june"]))
        return cfg, hourly_state_scenario(**cfg)

    paths = case.explore(run)
    for p in paths:
        if p.outcome != "ret":
            case.rep["harness_errors"].append(f"hourly state scenario raised {p.value!r}")
            continue
        cfg, pr = p.value
        rp = ("hourly-state", (lambda c: lambda mdl: dict(c))(cfg))
        only_warning = bool(pr) and all("changed the fitted model: ['warnings']" in x for x in pr)
        case.prove(p, not pr, "predict() leaves the hourly model as it was, and a later prediction does not depend on earlier predict calls", replay=rp,
                   exclude=[("C02-hourly-ghi-warning-appended", z3.BoolVal(cfg["ghi"] and only_warning))])
        case.regime("hourly model: second predict after a shorter reporting set")
        case.regime("hourly model whose cluster table lacks a month, reporting set with usage in that month", cfg["table"] == "no-june" and cfg["first_usage"])
    case.sample(dict(histories=len(paths)))


# ------------------------------------------------------------------ predict

def replay_predict(inp):
    idx = F.index_catalogue("pacific-dst", inp["n"])
    env = inp["env"]
    m = F.model(inp["layout"], tz="US/Pacific")
    dfa = F.float_frame(idx, env, inp["ts"], inp["os"])
    idx_b = pd.date_range("2021-07-01", periods=7, freq="D", tz="US/Pacific")
    dfb = pd.DataFrame({"temperature": np.linspace(40.0, 95.0, 7), "observed": np.arange(7, dtype=float)}, index=idx_b)
    before = dfa.copy(deep=True)
    js = json.dumps(m.to_dict(), default=str)
    fresh = F.model(inp["layout"], tz="US/Pacific").predict(_daily_shell(dfa))
    m.predict(_daily_shell(dfb))
    out = m.predict(_daily_shell(dfa))
    pr = []
    if not dfa.equals(before):
        pr.append("data object's frame modified by predict")
    if json.dumps(m.to_dict(), default=str) != js:
        pr.append("model parameters changed by _predict")
    for c in ("predicted", "heating_load", "cooling_load", "predicted_unc"):
        if not np.array_equal(out[c].to_numpy(dtype=float), fresh[c].to_numpy(dtype=float), equal_nan=True):
            pr.append(f"{c} depends on the dataset predicted before")
    return bool(pr), "; ".join(pr)


def _daily_shell(df):
    """a DailyReportingData shell whose private frame is `df` and whose .df property hands out copies (the real property)"""
    class Shell(dd.DailyReportingData):
        def __init__(self):
            pass
    d = Shell()
    d._df = df
    d.tz = df.index.tz
    d.warnings = []
    d.disqualification = []
    return d


def run_predict(case, what):
    n = 3
    idx = F.index_catalogue("pacific-dst", n)
    lay = "wdwe"
    names = [f"T{i}" for i in range(n)] + [f"o{i}" for i in range(n)] + [f"U{i}" for i in range(n)] + [f"p{i}" for i in range(n)]
    case.inputs = [z3.Real(x) for x in names]

    def run():
        m = F.model(lay, tz="US/Pacific")
        dfa, ts, os_ = F.sym_frame(idx, True)
        before = snap(dfa)
        params_before = copy.deepcopy(m.params.model_dump())
        from .c05 import _billing_data
        shell = _daily_shell(dfa)
        if what == "history":
            # the dataset predicted earlier is a different, concrete one (a week of data); the probed dataset is symbolic
            idx_b = pd.date_range("2021-07-01", periods=7, freq="D", tz="US/Pacific")
            dfb = pd.DataFrame({"temperature": np.linspace(40.0, 95.0, 7), "observed": np.arange(7, dtype=float)}, index=idx_b)
            ts2 = os2 = None
            fresh = F.model(lay, tz="US/Pacific").predict(_daily_shell(dfa))
            m.predict(_daily_shell(dfb))
            out = m.predict(shell)
        else:
            ts2 = os2 = None
            fresh = None
            out = m.predict(shell)
        return before, snap(dfa), params_before == m.params.model_dump(), out, fresh, (ts, os_, ts2, os2)

    with R.symbolic_daily():
        paths = case.explore(run)
    for p in paths:
        if p.outcome != "ret":
            case.rep["harness_errors"].append(f"_predict raised {p.value!r}")
            continue
        before, after, params_same, out, fresh, st = p.value
        rp = ("predict", (lambda s: lambda mdl: dict(layout=lay, n=n, env=model_env(mdl, case.inputs), ts=s[0], os=s[1], ts2=s[2] or s[0], os2=s[3] or s[1]))(st))
        case.prove(p, same(before, after), "predict never modifies the data object's frame", replay=rp)
        case.prove(p, params_same, "predict never alters the stored model parameters", replay=rp)
        if fresh is not None:
            eqs = []
            for c in ("predicted", "heating_load", "cooling_load", "predicted_unc"):
                for x, y in zip(cells(out[c]), cells(fresh[c])):
                    if is_nan(x) or is_nan(y):
                        eqs.append(z3.BoolVal(is_nan(x) and is_nan(y)))
                    else:
                        eqs.append(to_real(lift(x)) == to_real(lift(y)))
            case.prove(p, z3.And(*eqs), "prediction for a dataset does not depend on which dataset was predicted before", replay=rp)
            case.regime("second predict after a different dataset")
    case.sample(dict(what=what, layout=lay, rows=n, paths=len(paths)))


def run_billing_agg(case):
    import opendsm.eemeter.models.billing.model as bmod
    from symv.carriers import patched, symnp
    from .c05 import _billing_data
    n = 3
    idx = pd.date_range("2021-01-31", periods=n, freq="D", tz="US/Pacific")
    case.inputs = [z3.Real(f"T{i}") for i in range(n)] + [z3.Real(f"o{i}") for i in range(n)]

    def run():
        m = F.model("single", BillingModel, tz="US/Pacific")
        df, ts, os_ = F.sym_frame(idx, True)
        before = snap(df)
        params_before = copy.deepcopy(m.params.model_dump())
        data = _billing_data(df)
        out = m.predict(data, aggregation="monthly")
        return before, snap(df), params_before == m.params.model_dump()

    with R.symbolic_daily(), patched(bmod, np=symnp):
        paths = case.explore(run)
    for p in paths:
        if p.outcome != "ret":
            case.rep["harness_errors"].append(f"billing predict raised {p.value!r}")
            continue
        before, after, ps = p.value
        case.prove(p, same(before, after) and ps, "aggregated billing predict modifies neither the data frame nor the model parameters")
    case.sample(dict(rows=n, aggregation="monthly", paths=len(paths)))


# ------------------------------------------------------------------ gates

def replay_gate(inp):
    fam, cfg = inp["fam"], inp["cfg"]
    metric = c04._metric_floats(fam, inp["env"], inp.get("nones", []))
    r = c04.scenario_fit(fam, cfg, metric)
    return (not r["data_unchanged"]), f"data object after fit: disqualification={r['data_dq_after']}, warnings={r['data_warn_after']} (before: {cfg['ndq']} disqualification(s), no warnings)"


def run_gate(case, fam):
    names = ["cvrmse_adj", "pnrmse_adj", "thr_c", "thr_p"] if fam == "hourly" else ["cvrmse", "thr"]
    case.inputs = [z3.Real(n) for n in names]

    def run():
        cfg = dict(role="baseline", ndq=F.choose("ndq", [0, 1, 2]), ignore=F.choose("ignore", [True, False]))
        nones = []
        if fam == "hourly":
            cfg["ghi_cols"] = F.choose("ghi_cols", [False, True])
            cfg["features"] = F.choose("features", ["default", "temperature", "ghi"])
            metric = dict(cvrmse_adj=real("cvrmse_adj"), pnrmse_adj=real("pnrmse_adj"), thr_c=real("thr_c"), thr_p=real("thr_p"))
        else:
            metric = dict(cvrmse=real("cvrmse"), thr=real("thr"))
        return cfg, nones, c04.scenario_fit(fam, cfg, metric)

    paths = case.explore(run)
    fid = "C02-fit-aliases-data-lists"
    for p in paths:
        if p.outcome != "ret":
            case.rep["harness_errors"].append(f"gate scenario raised {p.value!r}")
            continue
        cfg, nones, r = p.value
        rp = ("gate", (lambda c, n: lambda mdl: dict(fam=fam, cfg=c, nones=n, env=model_env(mdl, case.inputs)))(cfg, nones))
        case.prove(p, r["data_unchanged"], "fit never modifies the data object's warnings / disqualification lists", replay=rp,
                   exclude=[(fid, z3.BoolVal(True))])
        if r.get("model_dq") is not None and r["model_dq"] > cfg["ndq"]:
            case.regime("poor fit appended to the model")
    case.sample(dict(family=fam, paths=len(paths)))


def replay_hp(inp):
    r = _hourly_predict_scenario(inp["ghi"])
    return (not r), "HourlyModel.predict appended the model-mismatch warning to a list shared with the baseline data object"


def _hourly_predict_scenario(ghi):
    """fit (stubbed numerics) on data A, then predict on GHI-carrying data: A's lists must stay as they were"""
    metric = dict(cvrmse_adj=0.1, pnrmse_adj=0.1, thr_c=1.4, thr_p=2.2)
    Model = c04.FAM["hourly"][0]
    data = c04.pick_data("hourly", "baseline", 0, "US/Pacific", ("temperature", "observed"))
    m = Model()
    m._ts_features = ["temperature"]

    def _fit(d):
        import types
        m.baseline_metrics = types.SimpleNamespace(cvrmse_adj=0.1, pnrmse_adj=0.1)
        m.is_fitted = True
        m.baseline_timezone = d.tz
        return m
    m._fit = _fit
    m.fit(data)
    m._predict = lambda *a, **k: "FRAME"
    rep = c04.pick_data("hourly", "reporting", 0, "US/Pacific", ("temperature", "observed", "ghi") if ghi else ("temperature", "observed"))
    w_before = list(data.warnings)
    m.predict(rep)
    return len(data.warnings) == len(w_before)


def run_hourly_predict(case):
    fid = "C02-fit-aliases-data-lists"
    for ghi in (False, True):
        ok = _hourly_predict_scenario(ghi)
        if not ok and case.finding_open(fid):
            case.ground(True, "predict leaves the baseline data object's lists alone (known finding)")
            case.known_finding(fid, "predict leaves the baseline data object's lists alone", dict(ghi=ghi), "warning appended to the baseline data object's list")
        elif not case.ground(ok, "predict never modifies the baseline data object it was fitted on"):
            case.violation("predict never modifies the baseline data object it was fitted on", "hp", dict(ghi=ghi), "model-mismatch warning appended to the baseline data object's warnings list")
    case.rep["paths"] += 2
    case.rep["nontrivial_paths"] += 2
    case.sample(dict(scenario="HourlyModel.fit then predict on GHI-carrying reporting data"))


REPLAY = {"data": replay_data, "predict": replay_predict, "gate": replay_gate, "hp": replay_hp, "series": replay_series, "accessor": replay_accessor, "hourly-data": replay_hourly_data, "interleave": replay_interleave, "refit": replay_refit, "legacy20": replay_legacy20, "caltrack-state": replay_caltrack_state, "hourly-state": replay_hourly_state}


def run_case(case: Case, name: str):
    parts = name.split("/")
    if parts[0] == "data":
        return run_data(case, parts[1], parts[2])
    if parts[0] == "series":
        return run_series(case, parts[1], parts[2])
    if parts[0] == "accessor":
        return run_accessor(case)
    if parts[0] == "hourly-data":
        return run_hourly_data(case)
    if parts[0] == "refit":
        return run_refit(case, parts[1])
    if parts[0] == "caltrack":
        return run_caltrack_state(case)
    if parts[0] == "legacy20":
        return run_legacy20(case)
    if parts[0] == "interleave":
        return run_interleave(case, parts[1])
    if parts[0] == "hourly-model":
        return run_hourly_state(case)
    if parts[0] == "predict":
        if parts[1] == "billing-agg":
            return run_billing_agg(case)
        return run_predict(case, "history" if parts[1] == "history" else "frame")
    if parts[1] == "hourly-predict":
        return run_hourly_predict(case)
    return run_gate(case, parts[1])
