"""C08 - usage is conserved when meter data is resampled to days.

The real data classes (DailyBaselineData, BillingBaselineData.from_series -> _compute_meter_value_df, as_freq cumulative
through 1-minute atoms, downsample_and_clean_daily_data, clean_billing_data, compute_minimum_granularity) run end-to-end
on symbolic usage readings; the missing layout of the probed day is solver-chosen."""
from __future__ import annotations

import numpy as np
import pandas as pd
import z3

import opendsm.eemeter.models.billing.data as bd
import opendsm.eemeter.models.daily.data as dd
from symv import engine as E
from symv import fpfacts as FPF
from symv.case import Case, close, close_sum
from symv.proxies import NAN, SReal, is_nan, lift, model_env, real, to_real
from symv.symarray import SymArray, cells

from . import dailyframe as F
from . import dataclass as D

EXPLANATION = "C08: end-to-end symbolic run of the daily/billing data classes; per-day / per-period conservation of usage, 50% rule, off-cycle periods."
BOUNDS = {"quick": dict(days=3, steps=["15min", "30min", "60min", "daily"], zones=["US/Pacific (23h day)", "UTC"], billing_calendars=["30-31-28", "24-30-36 (off-cycle)", "60-61", "30-71"]),
          "thorough": dict(days=4, steps="same", zones=["US/Pacific", "UTC", "Australia/Sydney", "Europe/London"], billing_calendars="same + 25-35-35, 70-25")}
STUBS = ["SufficiencyCriteria._check_extreme_values -> no-op"]
MODELS_USED = ["symreal ExtensionArray (asfreq/resample/merge executed by pandas on object cells)"]
ASSUMPTIONS = ["calendars/zones enumerated; usage values and the missing layout solver-quantified", "relative tolerance 1e-9 for sums through the 1-minute atoms",
               "the final day/period (open-ended last interval) is excluded, as the property states"]
EXPECTED_REGIMES = ["day covered exactly half", "day covered just over half", "23-hour day", "off-cycle period dropped", "valid period conserved"]
STEP = {"15": pd.Timedelta(minutes=15), "30": pd.Timedelta(minutes=30), "60": pd.Timedelta(hours=1)}
START = {"US/Pacific": "2021-03-13", "UTC": "2021-06-01", "Australia/Sydney": "2021-04-03", "Europe/London": "2021-10-30"}
CALENDARS = {"30-31-28": [30, 31, 28], "24-30-36": [24, 30, 36, 30], "60-61": [60, 61], "30-71": [30, 71, 30], "25-35-35": [25, 35, 35], "70-25": [70, 25, 30],
             "fall-35": [30, 35, 30],  # US/Pacific from 2021-09-05: the 35-day period spans the fall-back (35 days + 1 hour elapsed)
             "med35": [35, 30, 35, 40, 35, 30],  # irregular calendar whose median period is exactly 35 days: monthly limits apply, the 40-day period is off-cycle
             "tail-nan": [30, 31, 30, 31, 30]}  # the last two reads have a date but no amount yet: the billed periods before them are unaffected
TAIL_NAN = {"tail-nan": 2}
CAL_START = {"fall-35": "2021-09-05"}


def ENCODED():
    import opendsm.eemeter.common.data_processor_utilities as dpu
    return [dd._DailyData._compute_meter_value_df, bd._BillingData._compute_meter_value_df, dpu.as_freq, dpu.downsample_and_clean_daily_data,
            dpu.clean_billing_data, dpu.clean_billing_daily_data, dpu.compute_minimum_granularity, dpu.day_counts]


def cases(tier, seed):
    zones = ["US/Pacific", "UTC"] + (["Australia/Sydney", "Europe/London"] if tier == "thorough" else [])
    out = [f"{k}|{z}|{s}" for k in ("fn", "class") for z in zones for s in ("15", "30", "60")] + [f"daily|{z}|D" for z in zones[:2]]
    out += ["class-col|US/Pacific|60", "class-elec|US/Pacific|60"]
    cals = ["30-31-28", "24-30-36", "60-61", "30-71"] + (["25-35-35", "70-25"] if tier == "thorough" else [])
    out += [f"billing|UTC|{c}" for c in cals] + ["billing|US/Pacific|30-71", "billing|US/Pacific|fall-35", "billing|UTC|med35", "billing|US/Pacific|tail-nan"]
    if tier == "thorough":
        out.append("fp|half|x" + ("|x" if False else ""))
    return out


def feed_index(zone, step, days):
    s = pd.Timestamp(START[zone]).tz_localize(zone)
    e = (pd.Timestamp(START[zone]) + pd.Timedelta(days=days)).tz_localize(zone)
    return pd.date_range(s, e, freq=STEP[step], inclusive="left")


def layouts(n_day):
    half = n_day // 2
    return {"0": 0, "1": 1, "half-1": n_day - (half + 1), "half": n_day - half, "half+1": n_day - half + 1}


def build_sub(kind, zone, step, days, missing, sym, env=None):
    """kind 'fn': downsample_and_clean_daily_data on a series whose missing readings are NaN rows (the 50% rule);
    kind 'class': DailyBaselineData(df) - the data class drops NaN readings, so a reading before a gap is a constant rate
    over the longer interval up to the next present reading; the gap is placed inside the probed day"""
    import opendsm.eemeter.common.data_processor_utilities as dpu
    idx = feed_index(zone, step, days)
    byday = D.local_days(idx)
    dates = sorted(byday)
    day = byday[dates[1]]
    nan_pos = set(day[:missing]) if kind == "fn" else set(day[3:3 + missing])
    base_kind = kind
    kind = "class" if kind.startswith("class") else kind
    n = len(idx)
    obs = D.col("o", n, nan_pos, sym, env)
    if kind == "fn":
        ser = pd.Series(obs, index=idx, name="observed")
        warns = []
        out = dpu.downsample_and_clean_daily_data(ser, warns)
        return _Shell(out.rename(columns={"value": "observed"}), warns), idx, nan_pos
    if base_kind == "class-col":  # the timestamps handed over in a 'datetime' column instead of the index
        df = pd.DataFrame({"datetime": idx, "observed": obs, "temperature": np.full(n, 55.0)})
        return dd.DailyBaselineData(df, is_electricity_data=False), idx, nan_pos
    df = pd.DataFrame({"observed": obs, "temperature": np.full(n, 55.0)}, index=idx)
    if base_kind == "class-elec":
        # electricity: a reading of exactly 0 means "missing"; every other reading - negative (net-metered) ones included - counts
        # (two designated readings of the probed day have a free sign; the others are assumed positive: each free sign is a fork)
        if sym:
            free = set(day[10:12])
            for i in range(n):
                E.cur().assume(z3.Real(f"o{i}") != 0 if i in free else z3.Real(f"o{i}") > 0)
        return dd.DailyBaselineData(df, is_electricity_data=True), idx, nan_pos
    d = dd.DailyBaselineData(df, is_electricity_data=False)
    return d, idx, nan_pos


class _Shell:
    def __init__(self, df, warnings):
        self.df = df
        self.warnings = warnings


def build_daily(zone, days, sym, env=None):
    idx = pd.date_range(START[zone], periods=days, freq="D", tz=zone)
    obs = D.col("o", days, {1} if False else set(), sym, env)
    df = pd.DataFrame({"observed": obs, "temperature": np.full(days, 55.0)}, index=idx)
    return dd.DailyBaselineData(df, is_electricity_data=False), idx


def billing_index(zone, cal):
    t = pd.Timestamp(CAL_START.get(cal, "2021-01-05")).tz_localize(zone)
    out = [t]
    for L in CALENDARS[cal]:
        t = (t.tz_localize(None) + pd.Timedelta(days=L)).tz_localize(zone)
        out.append(t)
    return pd.DatetimeIndex(out)


def billed_lengths(cal):
    """the periods that carry a bill: the calendar is monthly or bi-monthly by the median length of THOSE (the final read, and any
    trailing reads without an amount, close a period but bill nothing) - the data classes' documented rule"""
    lens = CALENDARS[cal]
    return lens[: len(lens) - 1 - TAIL_NAN.get(cal, 0)]


def build_billing(zone, cal, sym, env=None):
    midx = billing_index(zone, cal)
    k = len(midx) - 1
    vals = [real(f"b{i}") if sym else float(env.get(f"b{i}", 100.0)) for i in range(k)] + [float("nan")]
    for i in range(k - TAIL_NAN.get(cal, 0), k):
        vals[i] = float("nan")
    meter = pd.Series(SymArray(vals) if sym else np.array(vals, dtype=float), index=midx, name="observed")
    tidx = pd.date_range(midx[0], midx[-1], freq="D")
    temp = pd.Series(np.full(len(tidx), 55.0), index=tidx, name="temperature")
    d = bd.BillingBaselineData.from_series(meter, temp, is_electricity_data=False)
    return d, midx


# ------------------------------------------------------------------ concrete oracles (replay)

def check_sub(d, idx, nan_pos, env, zone, step, kind="fn"):
    pr = []
    df = d.df
    byday = D.local_days(idx)
    dates = sorted(byday)
    vals = dict(zip([t.date() for t in df.index], df["observed"].to_numpy(dtype=float)))
    for date in dates[:-1]:
        pos = byday[date]
        pres = [i for i in pos if i not in nan_pos]
        got = vals.get(date, np.nan)
        if kind == "class":
            exp = sum(env.get(f"o{i}", 1.0) for i in pres)  # gap inside the day: the reading before it covers it
            mag = sum(abs(env.get(f"o{i}", 1.0)) for i in pres)
            if not np.isfinite(got) or abs(got - exp) > 1e-9 * mag + 1e-12:
                pr.append(f"{date}: usage {got} != sum of the day's readings {exp}")
        elif 2 * len(pres) <= len(pos):
            if np.isfinite(got):
                pr.append(f"{date}: covered {len(pres)}/{len(pos)} but usage {got} reported")
        else:
            exp = sum(env.get(f"o{i}", 1.0) for i in pres) * len(pos) / len(pres)
            mag = sum(abs(env.get(f"o{i}", 1.0)) for i in pres) * len(pos) / len(pres)
            if not np.isfinite(got) or abs(got - exp) > 1e-9 * mag + 1e-12:
                pr.append(f"{date}: usage {got} != sum of readings / coverage {exp}")
    return pr


def check_billing(d, midx, env, cal):
    pr = []
    df = d.df
    obs = df["observed"]
    lens = CALENDARS[cal]
    gran_bi = np.median(billed_lengths(cal)) > 35
    hi = 70 if gran_bi else 35
    for i, L in enumerate(lens):
        a, b = midx[i], midx[i + 1]
        seg = obs[(obs.index >= a) & (obs.index < b)].to_numpy(dtype=float)
        if i == len(lens) - 1:
            continue  # final period: open-ended by convention
        off = L < 25 or L > hi
        if i >= len(lens) - TAIL_NAN.get(cal, 0):
            if np.isfinite(seg).any():
                pr.append(f"period starting {a.date()} has no billed amount but carries usage {np.nansum(seg)}")
        elif off:
            if np.isfinite(seg).any():
                pr.append(f"off-cycle period of {L} days starting {a.date()} not dropped: {np.nansum(seg)}")
        else:
            tot = float(np.nansum(seg))
            exp = float(env.get(f"b{i}", 100.0))
            if len(seg) != L or abs(tot - exp) > 1e-6 * max(1.0, abs(exp)):
                pr.append(f"period of {L} days starting {a.date()}: daily values add up to {tot}, billed {exp} ({len(seg)} days)")
    return pr


def replay_usage(inp):
    import logging
    logging.disable(logging.CRITICAL)
    env = inp["env"]
    if inp["kind"] in ("fn", "class", "class-col", "class-elec"):
        d, idx, nan_pos = build_sub(inp["kind"], inp["zone"], inp["arg"], inp["days"], inp["missing"], False, env)
        pr = check_sub(d, idx, nan_pos, env, inp["zone"], inp["arg"], "class" if inp["kind"].startswith("class") else inp["kind"])
    elif inp["kind"] == "daily":
        d, idx = build_daily(inp["zone"], inp["days"], False, env)
        got = d.df["observed"].to_numpy(dtype=float)
        pr = [f"daily usage changed: {got}"] if not np.allclose(got[:-1], [env.get(f"o{i}", 1.0) for i in range(inp["days"] - 1)], rtol=1e-9) else []
    else:
        d, midx = build_billing(inp["zone"], inp["arg"], False, env)
        pr = check_billing(d, midx, env, inp["arg"])
    return bool(pr), "; ".join(pr[:3])


REPLAY = {"usage": replay_usage, "fp_half": FPF.replay_half}


def run_case(case: Case, name: str):
    if name.startswith("fp|"):
        return FPF.half_lemma(case, 1500, "minute atoms of a local day: coverage = n_coverage / n_total in as_freq")
    kind, zone, arg = name.split("|")
    days = 4 if case.tier == "thorough" else 3
    if kind in ("fn", "class", "class-col", "class-elec"):
        return run_sub(case, kind, zone, arg, days)
    if kind == "daily":
        return run_daily(case, zone, days)
    return run_billing(case, zone, arg)


def run_sub(case, kind, zone, step, days):
    entry, kind = kind, ("class" if kind.startswith("class") else kind)  # class-col / class-elec: same obligations as 'class'
    idx0 = feed_index(zone, step, days)
    byday = D.local_days(idx0)
    dates = sorted(byday)
    lay = layouts(len(byday[dates[1]])) if kind == "fn" else {"0": 0, "1": 1, "3": 3}
    case.inputs = [z3.Real(f"o{i}") for i in range(len(idx0))]

    def run():
        which = F.choose("layout", list(lay))
        return (which,) + build_sub(entry, zone, step, days, lay[which], True)

    with D.symbolic_dataclasses():
        paths = case.explore(run)
    for p in paths:
        if p.outcome != "ret":
            case.rep["harness_errors"].append(f"data class raised {p.value!r} (sub {zone} {step})")
            continue
        which, d, idx, nan_pos = p.value
        rp = ("usage", (lambda w: lambda mdl: dict(kind=entry, zone=zone, arg=step, days=days, missing=lay[w], env=model_env(mdl, case.inputs)))(which))
        df = d.df
        got = dict(zip([t.tz_convert(zone).date() if str(t.tz) != zone else t.date() for t in df.index], cells(df["observed"])))
        case.prove(p, str(df.index.tz) == zone, "the data object keeps the local timezone of the input", replay=rp)
        total_in = z3.RealVal(0)
        for date in dates[:-1]:
            pos = byday[date]
            pres = [i for i in pos if i not in nan_pos]
            v = got.get(date, NAN)
            if kind == "class":
                if is_nan(v):
                    case.prove(p, False, "every day inside the span has a usage value", replay=rp)
                    continue
                case.prove_linear_sum(p, to_real(lift(v)), {f"o{i}": 1 for i in pres}, "each local calendar day == sum of its readings (a reading is a constant rate up to the next present reading)", replay=rp)
                if len(pos) * STEP[step] == pd.Timedelta(hours=23):
                    case.regime("23-hour day")
                continue
            if 2 * len(pres) <= len(pos):
                case.prove(p, is_nan(v), "a day covered for half or less is missing", replay=rp)
                if 2 * len(pres) == len(pos):
                    case.regime("day covered exactly half")
            else:
                if is_nan(v):
                    case.prove(p, False, "a day covered for more than half has a usage value", replay=rp)
                    continue
                from fractions import Fraction
                label = "fully covered day == sum of its readings" if len(pres) == len(pos) else "partly covered day == sum of present readings / coverage"
                case.prove_linear_sum(p, to_real(lift(v)), {f"o{i}": Fraction(len(pos), len(pres)) for i in pres}, label, replay=rp)
                if len(pres) < len(pos):
                    case.regime("day covered just over half")
            if len(pos) * STEP[step] == pd.Timedelta(hours=23):
                case.regime("23-hour day")
        extra = [t for t in df.index if t.date() not in dates]
        case.prove(p, not extra, "no usage is invented on days outside the input span", replay=rp)
        if len(case.rep["samples"]) < 2:
            case.sample(dict(kind=kind, zone=zone, step_minutes=step, layout=which, readings=len(idx)))


def run_daily(case, zone, days):
    case.inputs = [z3.Real(f"o{i}") for i in range(days)]
    with D.symbolic_dataclasses():
        paths = case.explore(lambda: build_daily(zone, days, True))
    for p in paths:
        if p.outcome != "ret":
            case.rep["harness_errors"].append(f"data class raised {p.value!r} (daily {zone})")
            continue
        d, idx = p.value
        rp = ("usage", lambda mdl: dict(kind="daily", zone=zone, arg="D", days=days, env=model_env(mdl, case.inputs)))
        got = cells(d.df["observed"])
        ok = len(got) >= days - 1 and all(isinstance(g, SReal) for g in got[:days - 1])
        case.prove(p, z3.And(*[to_real(lift(g)) == z3.Real(f"o{i}") for i, g in enumerate(got[:days - 1])]) if ok else False,
                   "daily readings pass through unchanged", replay=rp)
    case.sample(dict(kind="daily", zone=zone, days=days))


def run_billing(case, zone, cal):
    lens = CALENDARS[cal]
    case.inputs = [z3.Real(f"b{i}") for i in range(len(lens))]
    with D.symbolic_dataclasses():
        paths = case.explore(lambda: build_billing(zone, cal, True))
    hi = 70 if np.median(billed_lengths(cal)) > 35 else 35
    for p in paths:
        if p.outcome != "ret":
            case.rep["harness_errors"].append(f"billing data class raised {p.value!r} ({cal})")
            continue
        d, midx = p.value
        rp = ("usage", lambda mdl: dict(kind="billing", zone=zone, arg=cal, days=0, env=model_env(mdl, case.inputs)))
        obs = d.df["observed"]
        oc = dict(zip(obs.index, cells(obs)))
        for i, L in enumerate(lens[:-1]):
            a, b = midx[i], midx[i + 1]
            seg = [v for t, v in oc.items() if a <= t < b]
            off = L < 25 or L > hi
            spans_dst = a.utcoffset() != b.utcoffset()
            if i >= len(lens) - TAIL_NAN.get(cal, 0):
                case.prove(p, all(is_nan(v) for v in seg), "a period whose read has no amount carries no usage", replay=rp)
                case.regime("trailing reads without an amount")
            elif off:
                case.prove(p, all(is_nan(v) for v in seg), "off-cycle period (<25, >35 monthly, >70 bi-monthly) is dropped", replay=rp,
                           exclude=[("C08-offcycle-dst", z3.BoolVal(spans_dst and L in (24, 36, 71)))])
                case.regime("off-cycle period dropped")
            else:
                fin = [to_real(lift(v)) for v in seg if not is_nan(v)]
                case.prove(p, len(seg) == L and len(fin) == L, "every day of a valid billing period has a value", replay=rp)
                case.prove_linear_sum(p, sum(fin, z3.RealVal(0)), {f"b{i}": 1}, "daily values of a valid billing period add up to the billed amount", replay=rp)
                case.regime("valid period conserved")
    case.sample(dict(kind="billing", calendar=lens, zone=zone))
