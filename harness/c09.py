"""C09 - daily temperature is the local-day mean of the sub-daily temperatures.

The real DailyBaselineData / BillingBaselineData constructors and from_series (-> _set_data, _compute_temperature_features,
compute_temperature_features, as_freq(instantaneous), merge_asof grouping ...) run end-to-end on frames whose temperature and
usage readings are symbolic; which readings of the probed day are missing is chosen by the solver from the layouts
{none, 1, half-1, half, half+1}."""
from __future__ import annotations

import numpy as np
import pandas as pd
import z3

import opendsm.eemeter.models.billing.data as bd
import opendsm.eemeter.models.daily.data as dd
from symv import engine as E
from symv.carriers import patched
from symv import fpfacts as FPF
from symv.case import Case, close
from symv.proxies import NAN, SReal, is_nan, lift, model_env, real, to_real
from symv.symarray import SymArray, cells

from . import dailyframe as F
from . import dataclass as D

EXPLANATION = "C09: end-to-end symbolic run of the daily/billing data classes; per-day temperature = mean of present readings, NaN iff half or fewer present; coverage counts."
BOUNDS = {"quick": dict(days=3, feeds=["60min", "30min"], zones=["US/Pacific (23h day)", "UTC", "Europe/London (25h day, hourly feed only)"], missing_layouts=["0", "1", "half-1", "half", "half+1"]),
          "thorough": dict(days=4, feeds=["60min", "30min"], zones=["US/Pacific (23h day)", "UTC", "Australia/Sydney (25h day)", "Europe/London"], missing_layouts="same + scattered")}
STUBS = ["SufficiencyCriteria._check_extreme_values -> no-op (float()/quantile; covered by C10)",
         "_check_data_sufficiency wrapped to record its argument (the per-day counts exist nowhere else), then runs unchanged"]
MODELS_USED = ["symreal ExtensionArray (resample/asfreq/merge_asof/groupby executed by pandas)"]
ASSUMPTIONS = ["feeds/offsets/zones are an enumerated catalogue; temperatures, usage values and the missing layout are solver-quantified",
               "equalities through inexact float constants (1/60 atoms) use relative tolerance 1e-9"]
EXPECTED_REGIMES = ["exactly half of the day's readings present", "one more than half present", "23-hour day", "feed in another timezone than the meter",
                    "meter read at 06:00 (its own 24-hour day)", "25-hour day"]
STEP = {"60": pd.Timedelta(hours=1), "30": pd.Timedelta(minutes=30)}
START = {"US/Pacific": "2021-03-13", "UTC": "2021-06-01", "Australia/Sydney": "2021-04-03", "Europe/London": "2021-10-30"}


def ENCODED():
    import opendsm.eemeter.common.features as ft
    import opendsm.eemeter.common.data_processor_utilities as dpu
    return [dd._DailyData.__init__, dd._DailyData._set_data, dd._DailyData._compute_temperature_features, dd._DailyData.from_series.__func__,
            bd._BillingData._compute_temperature_features, ft.compute_temperature_features, dpu.as_freq]


def cases(tier, seed):
    zones = ["US/Pacific", "UTC"] + (["Australia/Sydney", "Europe/London"] if tier == "thorough" else [])
    out = []
    for z in zones:
        for feed in ("60", "30"):
            out.append(f"frame|{z}|{feed}|daily")
            out.append(f"series-utc|{z}|{feed}|daily")
        out.append(f"series-06|{z}|60|daily")
    out.append("series-06|US/Pacific|30|daily")
    out.append("series-06g|US/Pacific|60|daily")
    out.append("frame-col|US/Pacific|30|daily")  # timestamps in a 'datetime' column, half-hourly feed
    out.append("frame-elec|US/Pacific|60|daily")  # electricity feed with zero readings on the probed day
    out.append("series-none|US/Pacific|60|daily")  # temperature-only reporting data, feed starting at 17:00 local  # meter read at 06:00 and one interior meter day without a usable reading
    if tier != "thorough":  # a 25-hour day in the quick tier as well
        out += ["frame|Europe/London|60|daily", "series-06|Europe/London|60|daily"]
    if tier == "thorough":
        out.append("fp|half|x" + ("|x" if True else ""))
    return out


def feed_index(zone, feed, days):
    s = pd.Timestamp(START[zone]).tz_localize(zone)
    e = (pd.Timestamp(START[zone]) + pd.Timedelta(days=days)).tz_localize(zone)
    return pd.date_range(s, e, freq=STEP[feed], inclusive="left")


def layouts(n_day):
    half = n_day // 2
    return {"0": 0, "1": 1, "half-1": n_day - half - 1 if False else n_day - (half + 1), "half": n_day - half, "half+1": n_day - half + 1}


def entry_index(entry, zone, feed, days):
    idx = feed_index(zone, feed, days)
    if entry == "series-none":
        # a weather feed that does not start at local midnight (e.g. cut on UTC days): 17:00 of the day before
        step = idx[1] - idx[0]
        lead = pd.date_range(idx[0] - pd.Timedelta(hours=7), idx[0], freq=step, inclusive="left")
        idx = lead.append(idx)
    return idx


def build(entry, zone, feed, fam, days, missing_first, sym, env=None, meter_missing=None):
    """returns (data object, feed index, nan positions).  `missing_first` = number of readings missing at the start of day 1"""
    idx = entry_index(entry, zone, feed, days)
    byday = D.local_days(idx)
    dates = sorted(byday)
    probe = byday[dates[1]]
    nan_pos = set(probe[:missing_first])
    n = len(idx)
    temp = D.col("T", n, nan_pos, sym, env)
    cls = dd.DailyBaselineData if fam == "daily" else bd.BillingBaselineData
    if entry == "series-none":
        cls = dd.DailyReportingData  # usage is optional for reporting data
    orig = cls._check_data_sufficiency

    def spy(self, sufficiency_df):  # observation point: the per-day counts only live in this argument
        self._verif_counts = sufficiency_df
        return orig(self, sufficiency_df)
    with patched(cls, _check_data_sufficiency=spy):
        return _build(cls, entry, zone, feed, days, idx, nan_pos, temp, sym, env, meter_missing)


def _build(cls, entry, zone, feed, days, idx, nan_pos, temp, sym, env, meter_missing=None):
    n = len(idx)
    if entry == "frame":
        obs = D.col("o", n, (), sym, env)
        df = pd.DataFrame({"observed": obs, "temperature": temp}, index=idx)
        d = cls(df, is_electricity_data=False)
    elif entry == "frame-col":
        # the timestamps handed over as a 'datetime' column instead of the index (documented input form)
        obs = D.col("o", n, (), sym, env)
        df = pd.DataFrame({"datetime": idx, "observed": obs, "temperature": temp})
        d = cls(df, is_electricity_data=False)
    elif entry == "frame-elec":
        # electricity: a reading of exactly 0 is treated as a missing USAGE reading; the temperature of that hour still counts
        zero = sorted(D.local_days(idx).items())[1][1][-3:-1]
        if sym:  # every other reading is non-zero (each possible zero would double the paths)
            for i in range(n):
                if i not in zero:
                    E.cur().assume(z3.Real(f"o{i}") != 0)
        obs = D.col("o", n, (), sym, env, zero_pos=zero)
        df = pd.DataFrame({"observed": obs, "temperature": temp}, index=idx)
        d = cls(df, is_electricity_data=True)
    elif entry == "series-none":
        ts = pd.Series(temp, index=idx, name="temperature")
        d = cls.from_series(None, ts, is_electricity_data=False, tzinfo=idx.tz)
    else:
        hour = 6 if entry.startswith("series-06") else 0
        s0 = pd.Timestamp(START[zone]).tz_localize(zone) + pd.Timedelta(hours=hour)
        midx = pd.DatetimeIndex([(pd.Timestamp(START[zone]) + pd.Timedelta(days=k, hours=hour)).tz_localize(zone) for k in range(days + (0 if hour else 0))])
        # a meter day without a usable reading (meter_missing = its position) must not move any day's temperature
        meter = pd.Series(D.col("o", len(midx), () if meter_missing is None else (meter_missing,), sym, env), index=midx, name="observed")
        tidx = idx.tz_convert("UTC") if entry == "series-utc" else idx
        ts = pd.Series(temp, index=tidx, name="temperature")
        d = cls.from_series(meter, ts, is_electricity_data=False)
    return d, idx, nan_pos


def meter_day(entry, zone, t):
    """independent oracle: the meter day a row stamped t stands for = [t, same wall-clock time on the next calendar day)"""
    nxt = (t.tz_convert(zone).tz_localize(None) + pd.Timedelta(days=1)).tz_localize(zone)
    return t, nxt


def expected_days(entry, zone, idx, nan_pos):
    """independent oracle: start of meter day -> (positions of the feed's readings in that day, present positions, complete?)
    (a day is complete when the feed reaches its end, so that the edge of the feed is not mistaken for missing readings)"""
    hour = 6 if entry.startswith("series-06") else 0
    loc = idx.tz_convert(zone)
    first = loc[0].tz_localize(None).normalize() + pd.Timedelta(hours=hour)
    out = {}
    k = -1
    while True:
        start = (first + pd.Timedelta(days=k)).tz_localize(zone)
        k += 1
        s0, e0 = meter_day(entry, zone, start)
        if s0 > loc[-1]:
            break
        pos = [i for i, t in enumerate(loc) if s0 <= t < e0]
        if pos:
            out[s0] = (pos, [i for i in pos if i not in nan_pos], loc[0] <= s0 and e0 <= loc[-1] + (loc[1] - loc[0]))
    return out


def check_concrete(entry, zone, d, idx, nan_pos, env):
    pr = []
    df = d.df
    exp = expected_days(entry, zone, idx, nan_pos)
    counts = getattr(d, "_verif_counts", None)
    have = set(df.index)
    for s0, (allp, pres, complete) in exp.items():
        if complete and s0 not in have:
            pr.append(f"no row for the complete meter day starting {s0} (rows are stamped {[str(t) for t in df.index[:3]]} ...)")
    for t, val in zip(df.index, df["temperature"].to_numpy(dtype=float)):
        if t not in exp:
            continue
        allp, pres, complete = exp[t]
        if not complete:
            continue
        if 2 * len(pres) <= len(allp):
            if np.isfinite(val):
                pr.append(f"{t}: {len(pres)} of {len(allp)} readings present but temperature {val} reported")
        else:
            m = float(np.mean([env.get(f"T{i}", 1.0) for i in pres]))
            if not np.isfinite(val) or abs(val - m) > 1e-6 * max(1.0, abs(m)):
                pr.append(f"{t}: temperature {val} != mean of the {len(pres)} present readings {m}")
        if counts is not None and t in counts.index:
            got = (float(counts.loc[t, "temperature_not_null"]), float(counts.loc[t, "temperature_null"]))
            if got != (float(len(pres)), float(len(allp) - len(pres))):
                pr.append(f"{t}: counts handed to the sufficiency test (present, absent) = {got}, the day has {(len(pres), len(allp) - len(pres))}")
    return pr


def replay_temp(inp):
    import logging
    logging.disable(logging.CRITICAL)
    env = inp["env"]
    d, idx, nan_pos = build(inp["entry"], inp["zone"], inp["feed"], inp["fam"], inp["days"], inp["missing"], False, env, inp.get("meter_missing"))
    pr = check_concrete(inp["entry"], inp["zone"], d, idx, nan_pos, env)
    return bool(pr), "; ".join(pr[:3])


REPLAY = {"temp": replay_temp, "fp_half": FPF.replay_half}


def run_case(case: Case, name: str):
    if name.startswith("fp|"):
        return FPF.half_lemma(case, 100, "present/(present+absent) readings of a meter day")
    entry, zone, feed, fam = name.split("|")
    days = 5 if entry == "series-06g" else (4 if case.tier == "thorough" else 3)
    idx0 = entry_index(entry, zone, feed, days)
    byday = D.local_days(feed_index(zone, feed, days))
    dates = sorted(byday)
    n_day = len(byday[dates[1]])
    lay = layouts(n_day)
    if entry == "series-06g":
        lay = {k: lay[k] for k in ("0", "1")}
    case.inputs = [z3.Real(f"T{i}") for i in range(len(idx0))] + [z3.Real(f"o{i}") for i in range(len(idx0))]
    fid = "C09-mean-divided-by-coverage"

    def run():
        which = F.choose("layout", list(lay))
        mm = 2 if entry == "series-06g" else None  # an interior meter day of a 5-day span has no usable reading
        d, idx, nan_pos = build(entry, zone, feed, fam, days, lay[which], True, None, mm)
        return which, mm, d, idx, nan_pos

    with D.symbolic_dataclasses():
        paths = case.explore(run)
    for p in paths:
        if p.outcome != "ret":
            case.rep["harness_errors"].append(f"data class raised {p.value!r} ({name})")
            continue
        which, mm, d, idx, nan_pos = p.value
        rp = ("temp", (lambda w, m_: lambda mdl: dict(entry=entry, zone=zone, feed=feed, fam=fam, days=days, missing=lay[w], meter_missing=m_, env=model_env(mdl, case.inputs)))(which, mm))
        case.regime("meter day without a usable reading", mm is not None)
        df = d.df
        exp = expected_days(entry, zone, idx, nan_pos)
        counts = getattr(d, "_verif_counts", None)
        tcells = cells(df["temperature"])
        seen = 0
        last = max(k for k in exp)
        offhour_subhourly = z3.BoolVal(entry.startswith("series-06") and feed != "60")
        for t, val in zip(df.index, tcells):
            if t not in exp:
                continue
            allp, pres, complete = exp[t]
            if not complete:
                continue
            seen += 1
            last_day = t == last
            excl = [(fid, z3.BoolVal(feed != "60" and len(pres) < len(allp))), ("C09-final-reading-dropped", z3.BoolVal(last_day)),
                    ("C09-subhourly-feed-offhour-meter", offhour_subhourly)]
            if 2 * len(pres) <= len(allp):
                case.prove(p, is_nan(val), "a day with half or fewer of its readings present is missing", replay=rp)
                if 2 * len(pres) == len(allp):
                    case.regime("exactly half of the day's readings present")
            else:
                if is_nan(val):
                    case.prove(p, False, "a day with more than half of its readings present has a temperature", replay=rp, exclude=excl[2:])
                else:
                    mean = sum((z3.Real(f"T{i}") for i in pres), z3.RealVal(0)) / len(pres)
                    case.prove(p, close(to_real(lift(val)), mean, 1e-9), "day temperature == mean of the non-missing readings of that meter day", replay=rp, exclude=excl)
                if 2 * len(pres) == len(allp) + 1 or 2 * len(pres) == len(allp) + 2:
                    case.regime("one more than half present")
            if counts is not None:
                ok = t in counts.index and not isinstance(counts.loc[t, "temperature_not_null"], SReal) and \
                    (float(counts.loc[t, "temperature_not_null"]), float(counts.loc[t, "temperature_null"])) == (float(len(pres)), float(len(allp) - len(pres)))
                case.prove(p, bool(ok), "counts of present/absent readings handed to the sufficiency test are the day's exact counts", replay=rp,
                           exclude=[("C09-final-reading-dropped", z3.BoolVal(last_day)), ("C09-subhourly-feed-offhour-meter", offhour_subhourly)])
            if len(allp) * (idx[1] - idx[0]) == pd.Timedelta(hours=23):
                case.regime("23-hour day")
            if len(allp) * (idx[1] - idx[0]) == pd.Timedelta(hours=25):
                case.regime("25-hour day")
            if entry.startswith("series-06"):
                case.regime("meter read at 06:00 (its own 24-hour day)")
        case.prove(p, seen >= days - 1, "every complete meter day of the span has a temperature row", replay=rp)
        case.prove(p, counts is not None, "the sufficiency test received the per-day counts", replay=rp)
        if entry == "series-utc" and zone != "UTC":
            case.regime("feed in another timezone than the meter")
        # coverage counts that feed the sufficiency test (hourly path)
        if len(case.rep["samples"]) < 2:
            case.sample(dict(entry=entry, zone=zone, feed_minutes=feed, layout=which, missing=len(nan_pos), rows=len(idx)))
