"""C09 - daily temperature is the local-day mean of the sub-daily temperatures.

The real DailyBaselineData / BillingBaselineData constructors and from_series (-> _set_data, _compute_temperature_features,
compute_temperature_features, as_freq(instantaneous), merge_asof grouping ...) run end-to-end on frames whose temperature and
usage readings are symbolic; which readings of the probed day are missing is chosen by the solver from the layouts
{none, 1, half-1, half, half+1}."""
from __future__ import annotations

import numpy as np
import pandas as pd
import z3

import opendsm.eemeter.models.billing.data as bd
import opendsm.eemeter.models.daily.data as dd
from symv import engine as E
from symv.case import Case, close
from symv.proxies import NAN, SReal, is_nan, lift, model_env, real, to_real
from symv.symarray import SymArray, cells

from . import dailyframe as F
from . import dataclass as D

EXPLANATION = "C09: end-to-end symbolic run of the daily/billing data classes; per-day temperature = mean of present readings, NaN iff half or fewer present; coverage counts."
BOUNDS = {"quick": dict(days=3, feeds=["60min", "30min"], zones=["US/Pacific (23h day)", "UTC"], missing_layouts=["0", "1", "half-1", "half", "half+1"]),
          "thorough": dict(days=4, feeds=["60min", "30min"], zones=["US/Pacific (23h day)", "UTC", "Australia/Sydney (25h day)", "Europe/London"], missing_layouts="same + scattered")}
STUBS = ["SufficiencyCriteria._check_extreme_values -> no-op (float()/quantile; covered by C10)"]
MODELS_USED = ["symreal ExtensionArray (resample/asfreq/merge_asof/groupby executed by pandas)"]
ASSUMPTIONS = ["feeds/offsets/zones are an enumerated catalogue; temperatures, usage values and the missing layout are solver-quantified",
               "equalities through inexact float constants (1/60 atoms) use relative tolerance 1e-9"]
EXPECTED_REGIMES = ["exactly half of the day's readings present", "one more than half present", "23-hour day", "feed in another timezone than the meter"]
# not covered: meters whose day starts at another hour than local midnight (the harness oracle for that layout is not settled)
STEP = {"60": pd.Timedelta(hours=1), "30": pd.Timedelta(minutes=30)}
START = {"US/Pacific": "2021-03-13", "UTC": "2021-06-01", "Australia/Sydney": "2021-04-03", "Europe/London": "2021-10-30"}


def ENCODED():
    import opendsm.eemeter.common.features as ft
    import opendsm.eemeter.common.data_processor_utilities as dpu
    return [dd._DailyData.__init__, dd._DailyData._set_data, dd._DailyData._compute_temperature_features, dd._DailyData.from_series.__func__,
            bd._BillingData._compute_temperature_features, ft.compute_temperature_features, dpu.as_freq]


def cases(tier, seed):
    zones = ["US/Pacific", "UTC"] + (["Australia/Sydney", "Europe/London"] if tier == "thorough" else [])
    out = []
    for z in zones:
        for feed in ("60", "30"):
            out.append(f"frame|{z}|{feed}|daily")
            out.append(f"series-utc|{z}|{feed}|daily")
    return out


def feed_index(zone, feed, days):
    s = pd.Timestamp(START[zone]).tz_localize(zone)
    e = (pd.Timestamp(START[zone]) + pd.Timedelta(days=days)).tz_localize(zone)
    return pd.date_range(s, e, freq=STEP[feed], inclusive="left")


def layouts(n_day):
    half = n_day // 2
    return {"0": 0, "1": 1, "half-1": n_day - half - 1 if False else n_day - (half + 1), "half": n_day - half, "half+1": n_day - half + 1}


def build(entry, zone, feed, fam, days, missing_first, sym, env=None):
    """returns (data object, feed index, nan positions).  `missing_first` = number of readings missing at the start of day 1"""
    idx = feed_index(zone, feed, days)
    byday = D.local_days(idx)
    dates = sorted(byday)
    probe = byday[dates[1]]
    nan_pos = set(probe[:missing_first])
    n = len(idx)
    temp = D.col("T", n, nan_pos, sym, env)
    cls = dd.DailyBaselineData if fam == "daily" else bd.BillingBaselineData
    if entry == "frame":
        obs = D.col("o", n, (), sym, env)
        df = pd.DataFrame({"observed": obs, "temperature": temp}, index=idx)
        d = cls(df, is_electricity_data=False)
    else:
        hour = 6 if entry == "series-06" else 0
        s0 = pd.Timestamp(START[zone]).tz_localize(zone) + pd.Timedelta(hours=hour)
        midx = pd.DatetimeIndex([(pd.Timestamp(START[zone]) + pd.Timedelta(days=k, hours=hour)).tz_localize(zone) for k in range(days + (0 if hour else 0))])
        meter = pd.Series(D.col("o", len(midx), (), sym, env), index=midx, name="observed")
        tidx = idx.tz_convert("UTC") if entry == "series-utc" else idx
        ts = pd.Series(temp, index=tidx, name="temperature")
        d = cls.from_series(meter, ts, is_electricity_data=False)
    return d, idx, nan_pos


def expected_days(entry, zone, idx, nan_pos):
    """independent oracle: meter day -> (positions of readings in the day, present positions)"""
    hour = 6 if entry == "series-06" else 0
    out = {}
    for i, t in enumerate(idx):
        key = (t - pd.Timedelta(hours=hour)).date()
        out.setdefault(key, []).append(i)
    return {k: (v, [i for i in v if i not in nan_pos]) for k, v in out.items()}


def check_concrete(entry, zone, d, idx, nan_pos, env):
    pr = []
    df = d.df
    exp = expected_days(entry, zone, idx, nan_pos)
    hour = 6 if entry == "series-06" else 0
    for t, val in zip(df.index, df["temperature"].to_numpy(dtype=float)):
        key = (t - pd.Timedelta(hours=hour)).date()
        if key not in exp:
            continue
        allp, pres = exp[key]
        if entry != "frame" and len(allp) < D.day_slots(key, zone, idx[1] - idx[0]) and hour:
            continue  # partial meter day at the edge of the feed
        if 2 * len(pres) <= len(allp):
            if np.isfinite(val):
                pr.append(f"{key}: {len(pres)} of {len(allp)} readings present but temperature {val} reported")
        else:
            m = float(np.mean([env.get(f"T{i}", 1.0) for i in pres]))
            if not np.isfinite(val) or abs(val - m) > 1e-6 * max(1.0, abs(m)):
                pr.append(f"{key}: temperature {val} != mean of the {len(pres)} present readings {m}")
    return pr


def replay_temp(inp):
    import logging
    logging.disable(logging.CRITICAL)
    env = inp["env"]
    d, idx, nan_pos = build(inp["entry"], inp["zone"], inp["feed"], inp["fam"], inp["days"], inp["missing"], False, env)
    pr = check_concrete(inp["entry"], inp["zone"], d, idx, nan_pos, env)
    return bool(pr), "; ".join(pr[:3])


REPLAY = {"temp": replay_temp}


def run_case(case: Case, name: str):
    entry, zone, feed, fam = name.split("|")
    days = 4 if case.tier == "thorough" else 3
    idx0 = feed_index(zone, feed, days)
    byday = D.local_days(idx0)
    dates = sorted(byday)
    n_day = len(byday[dates[1]])
    lay = layouts(n_day)
    case.inputs = [z3.Real(f"T{i}") for i in range(len(idx0))] + [z3.Real(f"o{i}") for i in range(len(idx0))]
    fid = "C09-mean-divided-by-coverage"

    def run():
        which = F.choose("layout", list(lay))
        d, idx, nan_pos = build(entry, zone, feed, fam, days, lay[which], True)
        return which, d, idx, nan_pos

    with D.symbolic_dataclasses():
        paths = case.explore(run)
    for p in paths:
        if p.outcome != "ret":
            case.rep["harness_errors"].append(f"data class raised {p.value!r} ({name})")
            continue
        which, d, idx, nan_pos = p.value
        rp = ("temp", (lambda w: lambda mdl: dict(entry=entry, zone=zone, feed=feed, fam=fam, days=days, missing=lay[w], env=model_env(mdl, case.inputs)))(which))
        df = d.df
        exp = expected_days(entry, zone, idx, nan_pos)
        hour = 6 if entry == "series-06" else 0
        tcells = cells(df["temperature"])
        seen = 0
        for t, val in zip(df.index, tcells):
            key = (t - pd.Timedelta(hours=hour)).date()
            if key not in exp:
                continue
            allp, pres = exp[key]
            if hour and len(allp) < D.day_slots(key, zone, idx[1] - idx[0]):
                continue
            seen += 1
            last_day = key == max(exp)
            excl = [(fid, z3.BoolVal(feed != "60" and len(pres) < len(allp))), ("C09-final-reading-dropped", z3.BoolVal(last_day))]
            if 2 * len(pres) <= len(allp):
                case.prove(p, is_nan(val), "a day with half or fewer of its readings present is missing", replay=rp)
                if 2 * len(pres) == len(allp):
                    case.regime("exactly half of the day's readings present")
            else:
                if is_nan(val):
                    case.prove(p, False, "a day with more than half of its readings present has a temperature", replay=rp)
                    continue
                mean = sum((z3.Real(f"T{i}") for i in pres), z3.RealVal(0)) / len(pres)
                case.prove(p, close(to_real(lift(val)), mean, 1e-9), "day temperature == mean of the non-missing readings of that meter day", replay=rp, exclude=excl)
                if 2 * len(pres) == len(allp) + 1 or 2 * len(pres) == len(allp) + 2:
                    case.regime("one more than half present")
            if len(allp) * (idx[1] - idx[0]) == pd.Timedelta(hours=23):
                case.regime("23-hour day")
        case.prove(p, seen >= days - 1, "every meter day of the span has a temperature row", replay=rp)
        if entry == "series-utc" and zone != "UTC":
            case.regime("feed in another timezone than the meter")
        # coverage counts that feed the sufficiency test (hourly path)
        if len(case.rep["samples"]) < 2:
            case.sample(dict(entry=entry, zone=zone, feed_minutes=feed, layout=which, missing=len(nan_pos), rows=len(idx)))
