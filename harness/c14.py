"""C14 - approved-method settings are locked unless developer mode is explicit.

Symbolic part: the repository's *Python* validators are executed on model_construct'ed settings objects whose
fields are symbolic (reals/ints) or solver-chosen from finite alternatives (enums, None, bools, strings):
settings._check_developer_mode (recursive), DailySettings._check_developer_mode/_check_alpha_final/
_check_final_bounds_scalar/_check_initial_step_percentage, Split_Selection_Definition._check_reduce_splits_num_std,
Season_Definition/Weekday_Weekend_Definition.set_numeric_dict, TemperatureBinSettings._check_temperature_bins/
_check_edge_bins, ElasticNetSettings._check_adaptive_weights, BaseHourlySettings.add_default_features.
Ground part (pydantic-core is Rust): default objects vs the pinned table oracles/approved_constants.json and a
constructor catalogue (each developer field changed, key case/whitespace variants, dict vs object input)."""
from __future__ import annotations

import json
import os

import numpy as np
import z3

import opendsm.eemeter.models.daily.utilities.settings as st
import opendsm.eemeter.models.hourly.settings as hs
from opendsm.eemeter.models.billing.settings import BillingSettings
from opendsm.eemeter.models.daily.utilities.opt_settings import AlgorithmChoice
from symv import engine as E
from symv.carriers import patched
from symv.case import Case
from symv.proxies import SInt, SReal, integer, lift, model_env, real

from . import dailyframe as F

ROOT = os.path.dirname(os.path.dirname(os.path.abspath(__file__)))
EXPLANATION = "C14: developer-mode lock and cross-field validators on symbolic settings trees; pinned defaults and constructor catalogue concretely."
BOUNDS = {"quick": dict(fields="every developer field of the daily/legacy/billing trees, one at a time and all numeric at once", lists="length 1..3"),
          "thorough": dict(fields="same + pairs of developer fields", lists="length 0..3")}
STUBS = ["settings objects built with model_construct (pydantic-core constraints ge/le/enum and str normalisation bypassed)",
         "builtin float inside the settings modules -> class accepting symbolic reals (for isinstance(x, float))"]
MODELS_USED = []
ASSUMPTIONS = ["pydantic-core's own ge/le/enum/coercion code and key normalisation are exercised only concretely (constructor catalogue)",
               "oracles/approved_constants.json is a regression oracle captured from the pinned commit"]
EXPECTED_REGIMES = ["lock trips on a changed developer field", "developer mode accepts the change", "non-developer field changed", "nested developer field changed",
                    "nested block handed over as an object of a sibling class",
                    "cross-field validator rejects"]
DAILY_CLASSES = {"daily": st.DailySettings, "legacy": st.DailyLegacySettings, "billing": BillingSettings}


def ENCODED():
    return [st._check_developer_mode, st.DailySettings._check_developer_mode, st.DailySettings._check_alpha_final,
            st.DailySettings._check_final_bounds_scalar, st.DailySettings._check_initial_step_percentage,
            st.Split_Selection_Definition._check_reduce_splits_num_std, st.Season_Definition.set_numeric_dict,
            st.Weekday_Weekend_Definition.set_numeric_dict, hs.TemperatureBinSettings._check_temperature_bins,
            hs.TemperatureBinSettings._check_edge_bins, hs.ElasticNetSettings._check_adaptive_weights,
            hs.BaseHourlySettings.add_default_features]


def cases(tier, seed):
    out = []
    for k in DAILY_CLASSES:
        out += [f"lock/{k}", f"lockall/{k}", f"cross/{k}"]
    out += ["maps/season", "maps/week", "hourly/tempbin", "hourly/elasticnet", "hourly/features", "ground/defaults", "ground/constructors"]
    return out


class _FloatMeta(type):
    def __instancecheck__(cls, x):
        return isinstance(x, (float, SReal)) and not isinstance(x, SInt)


class FloatLike(metaclass=_FloatMeta):
    def __new__(cls, x=0.0):
        return x if isinstance(x, SReal) else float(x)


def validator(cls, name):
    return cls.__pydantic_decorators__.model_validators[name].func


def defaults_of(cls):
    d = cls()
    return {k: getattr(d, k) for k in cls.model_fields}


def alts(v):
    """finite alternatives for non-numeric defaults (first entry = the default)"""
    if isinstance(v, bool):
        return [v, not v]
    if isinstance(v, AlgorithmChoice):
        return [v, AlgorithmChoice.NLOPT_DIRECT if v != AlgorithmChoice.NLOPT_DIRECT else AlgorithmChoice.NLOPT_SBPLX, None]
    if isinstance(v, st.FullModelSelection):
        return [v, st.FullModelSelection.C_HDD_TIDD, st.FullModelSelection.TIDD, None]
    if isinstance(v, st.AlphaFinalType):
        return [v, st.AlphaFinalType.ALL, None]
    if isinstance(v, st.ModelSelectionCriteria):
        return [v, st.ModelSelectionCriteria.AIC, st.ModelSelectionCriteria.RMSE]
    return None


def alt_value(cls, k, v, tag, env=None):
    """a symbolic (env is None) or concrete (env = witness {var: value}) alternative for field k with default v.
    returns (value, differs) with differs a z3 Bool (symbolic) / python bool (concrete)"""
    sym = env is None
    B = (lambda b: z3.BoolVal(b)) if sym else (lambda b: b)
    pick = (lambda name, opts: F.choose(name, opts)) if sym else (lambda name, opts: opts[int(env.get(name, 0))])
    a = alts(v)
    if a is not None:
        x = pick(f"{tag}_alt", a)
        return x, B(x != v)
    if isinstance(v, int):
        if sym:
            x = z3.Int(f"{tag}_v")
            return SInt(x), x != v
        x = int(env.get(f"{tag}_v", v))
        return x, x != v
    if isinstance(v, float):
        if sym:
            x = z3.Real(f"{tag}_v")
            return SReal(x), x != lift(v)
        x = float(env.get(f"{tag}_v", v))
        return x, x != v
    if isinstance(v, str):
        kind = pick(f"{tag}_alt", ["same", "float", "none", "other"])
        if kind == "same":
            return v, B(False)
        if kind == "float":
            return (SReal(z3.Real(f"{tag}_v")) if sym else float(env.get(f"{tag}_v", 0.0))), B(True)
        if kind == "none":
            return None, B(True)
        return "fixed", B(True)
    if isinstance(v, list):
        n = pick(f"{tag}_len", [len(v), len(v) + 1, max(len(v) - 1, 1)])
        if sym:
            xs = [z3.Real(f"{tag}_v{i}") for i in range(n)]
            if n != len(v):
                return [SReal(x) for x in xs], B(True)
            return [SReal(x) for x in xs], z3.Or(*[x != lift(d) for x, d in zip(xs, v)])
        xs = [float(env.get(f"{tag}_v{i}", 0.0)) for i in range(n)]
        return xs, xs != v
    if v is None:
        kind = pick(f"{tag}_alt", ["same", "list"])
        if kind == "same":
            return None, B(False)
        if sym:
            return [SReal(z3.Real(f"{tag}_v{i}")) for i in range(2)], B(True)
        return [float(env.get(f"{tag}_v{i}", 1.0)) for i in range(2)], True
    raise TypeError(f"no alternative for {k}={v!r}")


SPLIT_CLASSES = [st.Split_Selection_Definition, st.Split_Selection_Legacy_Definition]


def build(cls, overrides, split_overrides=None, split_cls=None):
    base = defaults_of(cls)
    ss_cls = type(base["split_selection"])
    ssd = {k: getattr(base["split_selection"], k) for k in ss_cls.model_fields}
    if split_cls is not None and split_cls is not ss_cls:  # nested block handed over as an object of a sibling class, carrying that class's own defaults
        ss_cls = split_cls
        own = split_cls()
        ssd = {k: getattr(own, k) for k in split_cls.model_fields}
    ssd.update(split_overrides or {})
    base["split_selection"] = ss_cls.model_construct(**ssd)
    base.update(overrides)
    return cls.model_construct(**base)


def dev_fields(cls):
    return [k for k, f in cls.model_fields.items() if f.json_schema_extra["developer"] and k != "split_selection"]


def nondev_fields(cls):
    return [k for k, f in cls.model_fields.items() if not f.json_schema_extra["developer"]]


# ------------------------------------------------------------------ lock

def run_lock(case, key, all_at_once):
    cls = DAILY_CLASSES[key]
    base = defaults_of(cls)
    ss_cls = type(base["split_selection"])
    ss_def = {k: getattr(base["split_selection"], k) for k in ss_cls.model_fields}
    top = dev_fields(cls)
    nested = list(ss_cls.model_fields)
    nondev = [k for k in nondev_fields(cls) if k not in ("developer_mode", "silent_developer_mode", "season", "weekday_weekend")]
    targets = [("top", k) for k in top] + [("nested", k) for k in nested] + [("nondev", k) for k in nondev] + [("nondev", "season"), ("nondev", "weekday_weekend")]
    targets += [("nestedcls", c.__name__) for c in SPLIT_CLASSES]
    numeric_top = [k for k in top if isinstance(base[k], (int, float)) and not isinstance(base[k], bool)]
    numeric_nested = [k for k in nested if isinstance(ss_def[k], (int, float)) and not isinstance(ss_def[k], bool)]
    inputs = set()

    def scenario(which):
        return lock_scenario(key, which, None)

    jobs = [[t] for t in targets] if not all_at_once else [[("top", k) for k in numeric_top] + [("nested", k) for k in numeric_nested]]
    if all_at_once and case.tier == "thorough":
        jobs += [[("top", a), ("nested", b)] for a in numeric_top[:3] for b in nested[:4]]
    for which in jobs:
        with patched(st, float=FloatLike):
            paths = case.explore(lambda: scenario(which))
        for p in paths:
            if p.outcome != "ret":
                case.rep["harness_errors"].append(f"lock scenario raised {p.value!r} for {which}")
                continue
            dev, differs, out, nd_changed, names = p.value
            rp = ("lock", (lambda w, d: lambda mdl: dict(key=key, which=w, dev=d, model={str(x): str(mdl[x]) for x in mdl.decls()}))(which, dev))
            want_reject = z3.And(z3.BoolVal(not dev), differs)
            case.prove(p, z3.BoolVal(out == "reject") == want_reject,
                       "lock rejects <=> developer_mode is off and some developer field differs from its approved default", replay=rp)
            if out == "reject":
                case.regime("lock trips on a changed developer field")
                if which[0][0] == "nested":
                    case.regime("nested developer field changed")
                if which[0][0] == "nestedcls":
                    case.regime("nested block handed over as an object of a sibling class")
            if dev and out == "accept" and which[0][0] != "nondev":
                case.regime("developer mode accepts the change")
            if nd_changed and out == "accept" and not dev:
                case.regime("non-developer field changed")
        if len(case.rep["samples"]) < 3:
            case.sample(dict(settings_class=cls.__name__, fields=[k for _, k in which], paths=len(paths)))


def lock_scenario(key, which, env):
    """env None: symbolic (inside Engine.explore); env dict: concrete replay with plain python values"""
    cls = DAILY_CLASSES[key]
    base = defaults_of(cls)
    ss_cls = type(base["split_selection"])
    ss_def = {k: getattr(base["split_selection"], k) for k in ss_cls.model_fields}
    sym = env is None
    dev = F.choose("developer_mode", [False, True]) if sym else [False, True][int(env.get("developer_mode", 0))]
    ov, sov, differs, nd_changed, split_cls = {}, {}, [], False, None
    for lvl, k in which:
        if lvl == "nestedcls":
            split_cls = [c for c in SPLIT_CLASSES if c.__name__ == k][0]
            own = split_cls()
            d = any(f.json_schema_extra["developer"] and getattr(own, n) != ss_def[n] for n, f in split_cls.model_fields.items())
            differs.append(z3.BoolVal(d) if sym else d)
        elif lvl == "top":
            ov[k], d = alt_value(cls, k, base[k], f"t_{k}", env)
            differs.append(d)
        elif lvl == "nested":
            sov[k], d = alt_value(ss_cls, k, ss_def[k], f"n_{k}", env)
            differs.append(d)
        else:
            if k == "season":
                ov[k] = st.Season_Definition(january="summer")
            elif k == "weekday_weekend":
                ov[k] = st.Weekday_Weekend_Definition(monday="weekend")
            else:
                ov[k], _ = alt_value(cls, k, base[k], f"x_{k}", env)
            nd_changed = True
    ov["developer_mode"] = dev
    ov["silent_developer_mode"] = True
    obj = build(cls, ov, sov, split_cls)
    try:
        r = validator(cls, "_check_developer_mode")(obj)
        out = "accept" if r is obj else "other"
    except ValueError:
        out = "reject"
    if sym:
        diff = z3.Or(*differs) if differs else z3.BoolVal(False)
    else:
        diff = any(differs)
    return dev, diff, out, nd_changed, [k for _, k in which]


def _env_of(model_strs):
    env = {}
    for k, v in model_strs.items():
        try:
            env[k] = float(eval(v.replace("?", ""), {"__builtins__": {}})) if "/" in v or "." in v else int(v)
        except Exception:
            try:
                env[k] = float(v)
            except Exception:
                pass
    return env


def replay_lock(inp):
    """concrete re-run of the real validators on plain python values taken from the witness"""
    env = _env_of(inp["model"])
    which = [tuple(w) for w in inp["which"]]
    dev, diff, out, _, names = lock_scenario(inp["key"], which, env)
    want_reject = (not dev) and diff
    return (out == "reject") != want_reject, f"fields {names}: developer_mode={dev}, differs={diff}, validator says {out}; witness {env}"


# ------------------------------------------------------------------ cross-field validators

def run_cross(case, key):
    cls = DAILY_CLASSES[key]
    base = defaults_of(cls)

    def scen_alpha():
        af_kind = F.choose("af_kind", ["none", "adaptive", "other", "float"])
        aft = F.choose("aft", [None, st.AlphaFinalType.ALL, st.AlphaFinalType.LAST])
        af = {"none": None, "adaptive": "adaptive", "other": "fixed"}.get(af_kind, None)
        if af_kind == "float":
            af = real("alpha_final")
        obj = build(cls, dict(alpha_final=af, alpha_final_type=aft, alpha_minimum=real("alpha_minimum")))
        try:
            validator(cls, "_check_alpha_final")(obj)
            return af_kind, aft, "accept"
        except ValueError:
            return af_kind, aft, "reject"

    with patched(st, float=FloatLike):
        paths = case.explore(scen_alpha)
    am, af = z3.Real("alpha_minimum"), z3.Real("alpha_final")
    for p in paths:
        if p.outcome != "ret":
            case.rep["harness_errors"].append(f"alpha scenario raised {p.value!r}")
            continue
        k, aft, out = p.value
        if k == "none":
            want = z3.BoolVal(aft is not None)
        elif k == "adaptive":
            want = z3.BoolVal(False)
        elif k == "other":
            want = z3.BoolVal(True)
        else:
            want = z3.Or(am > af, af > 2)
        case.prove(p, z3.BoolVal(out == "reject") == want, "alpha_final rejected <=> (None with a final type) or (float outside [alpha_minimum, 2]) or (string other than 'adaptive')",
                   replay=("note", lambda mdl: dict(validator="_check_alpha_final", model={str(x): str(mdl[x]) for x in mdl.decls()})))
        if out == "reject":
            case.regime("cross-field validator rejects")

    def scen_fbs():
        kind = F.choose("fbs_kind", ["none", "float"])
        aft = F.choose("aft", [None, st.AlphaFinalType.ALL, st.AlphaFinalType.LAST])
        obj = build(cls, dict(final_bounds_scalar=None if kind == "none" else real("fbs"), alpha_final_type=aft))
        try:
            validator(cls, "_check_final_bounds_scalar")(obj)
            return kind, aft, "accept"
        except ValueError:
            return kind, aft, "reject"

    paths = case.explore(scen_fbs)
    for p in paths:
        if p.outcome != "ret":
            case.rep["harness_errors"].append(f"fbs scenario raised {p.value!r}")
            continue
        kind, aft, out = p.value
        want = z3.BoolVal(aft is not None) if kind == "none" else z3.Or(z3.Real("fbs") <= 0, z3.BoolVal(aft is None))
        case.prove(p, z3.BoolVal(out == "reject") == want, "final_bounds_scalar rejected <=> (None with a final type) or (<= 0) or (set without a final type)",
                   replay=("note", lambda mdl: dict(validator="_check_final_bounds_scalar", model={str(x): str(mdl[x]) for x in mdl.decls()})))

    def scen_isp():
        kind = F.choose("isp_kind", ["none", "float"])
        alg = F.choose("alg", [AlgorithmChoice.NLOPT_SBPLX, AlgorithmChoice.SCIPY_SLSQP if hasattr(AlgorithmChoice, "SCIPY_SLSQP") else list(AlgorithmChoice)[0]])
        obj = build(cls, dict(initial_step_percentage=None if kind == "none" else real("isp"), algorithm_choice=alg))
        try:
            validator(cls, "_check_initial_step_percentage")(obj)
            return kind, alg, "accept"
        except ValueError:
            return kind, alg, "reject"

    paths = case.explore(scen_isp)
    for p in paths:
        if p.outcome != "ret":
            case.rep["harness_errors"].append(f"isp scenario raised {p.value!r}")
            continue
        kind, alg, out = p.value
        want = z3.BoolVal(str(alg.value)[:5] == "nlopt") if kind == "none" else z3.Or(z3.Real("isp") <= 0, z3.Real("isp") > lift(0.5))
        case.prove(p, z3.BoolVal(out == "reject") == want, "initial_step_percentage rejected <=> (None with an NLopt algorithm) or outside (0, 0.5]",
                   replay=("note", lambda mdl: dict(validator="_check_initial_step_percentage", model={str(x): str(mdl[x]) for x in mdl.decls()})))

    ss_cls = type(base["split_selection"])

    def scen_std():
        kind = F.choose("std_kind", ["none", 1, 2, 3] if case.tier != "thorough" else ["none", 0, 1, 2, 3])
        v = None if kind == "none" else [real(f"s{i}") for i in range(kind)]
        ssd = {k: getattr(base["split_selection"], k) for k in ss_cls.model_fields}
        ssd["reduce_splits_num_std"] = v
        obj = ss_cls.model_construct(**ssd)
        try:
            validator(ss_cls, "_check_reduce_splits_num_std")(obj)
            return kind, "accept"
        except ValueError:
            return kind, "reject"

    paths = case.explore(scen_std)
    for p in paths:
        if p.outcome != "ret":
            case.rep["harness_errors"].append(f"std scenario raised {p.value!r}")
            continue
        kind, out = p.value
        want = z3.BoolVal(False) if kind == "none" else (z3.BoolVal(True) if kind != 2 else z3.Or(z3.Real("s0") <= 0, z3.Real("s1") <= 0))
        case.prove(p, z3.BoolVal(out == "reject") == want, "reduce_splits_num_std rejected <=> not None and (length != 2 or an entry <= 0)",
                   replay=("note", lambda mdl: dict(validator="_check_reduce_splits_num_std", model={str(x): str(mdl[x]) for x in mdl.decls()})))
    case.sample(dict(settings_class=cls.__name__, validators=["_check_alpha_final", "_check_final_bounds_scalar", "_check_initial_step_percentage", "_check_reduce_splits_num_std"]))


# ------------------------------------------------------------------ maps

def run_maps(case, which):
    cls = st.Season_Definition if which == "season" else st.Weekday_Weekend_Definition
    names = [k for k in cls.model_fields if k != "options"]
    opts = defaults_of(cls)["options"]
    pool = list(opts) + ["spring", "", "WINTER"]

    def run():
        i = F.choose("field", list(range(len(names))))
        v = F.choose("value", pool)
        d = defaults_of(cls)
        d[names[i]] = v
        obj = cls.model_construct(**d)
        try:
            r = validator(cls, "set_numeric_dict")(obj)
            return i, v, "accept", dict(r._num_dict)
        except ValueError:
            return i, v, "reject", None

    paths = case.explore(run)
    for p in paths:
        if p.outcome != "ret":
            case.rep["harness_errors"].append(f"maps scenario raised {p.value!r}")
            continue
        i, v, out, nd = p.value
        rp = ("note", (lambda a, b: lambda mdl: dict(validator="set_numeric_dict", field=names[a], value=b))(i, v))
        case.prove(p, (out == "reject") == (v not in opts), "map value rejected <=> not one of the options", replay=rp)
        if out == "accept":
            exp = {n + 1: (v if n == i else defaults_of(cls)[names[n]]) for n in range(len(names))}
            case.prove(p, nd == exp, "numeric map = the settings' month/day assignments", replay=rp)
    case.sample(dict(map=which, fields=len(names), values_tried=pool))


# ------------------------------------------------------------------ hourly

def tb_expected(method, n_bins, bin_width_state, bw, include, rate, pct):
    """independent statement of the documented temperature-bin rules; returns z3 Bool 'rejected'"""
    SBW = hs.BinningChoice.SET_BIN_WIDTH
    rej = []
    if method is None:
        rej += [n_bins is not None, bin_width_state != "none"]
    elif method == SBW:
        rej += [bin_width_state == "none", n_bins is not None]
        if bin_width_state == "float":
            rej.append(bw <= 0)
    else:
        rej += [n_bins is None, bin_width_state != "none"]
    r1 = z3.Or(*[x if z3.is_expr(x) else z3.BoolVal(bool(x)) for x in rej])
    rej2 = []
    if method != SBW:
        rej2.append(include)
    if include:
        rej2 += [rate is None, pct is None]
    else:
        rej2 += [rate is not None, pct is not None]
    r2 = z3.BoolVal(any(rej2))
    return r1, r2


def run_tempbin(case):
    cls = hs.TemperatureBinSettings

    def run():
        method = F.choose("method", [hs.BinningChoice.SET_BIN_WIDTH, hs.BinningChoice.EQUAL_BIN_WIDTH, hs.BinningChoice.EQUAL_SAMPLE_COUNT, None])
        n_bins = F.choose("n_bins", [None, 6])
        bws = F.choose("bw_state", ["none", "float", "int"])
        bw = {"none": None, "float": real("bin_width"), "int": 12}[bws]
        include = F.choose("include", [True, False])
        rate = F.choose("rate", ["heuristic", None, 0.5])
        pct = F.choose("pct", [0.0425, None])
        d = defaults_of(cls)
        d.update(method=method, n_bins=n_bins, bin_width=bw, include_edge_bins=include, edge_bin_rate=rate, edge_bin_percent=pct)
        obj = cls.model_construct(**d)
        outs = []
        for v in ("_check_temperature_bins", "_check_edge_bins"):
            try:
                validator(cls, v)(obj)
                outs.append("accept")
            except ValueError:
                outs.append("reject")
        return (method, n_bins, bws, include, rate, pct), outs

    with patched(hs, float=FloatLike):
        paths = case.explore(run)
    for p in paths:
        if p.outcome != "ret":
            case.rep["harness_errors"].append(f"tempbin scenario raised {p.value!r}")
            continue
        (method, n_bins, bws, include, rate, pct), outs = p.value
        r1, r2 = tb_expected(method, n_bins, bws, z3.Real("bin_width"), include, rate, pct)
        rp = ("note", (lambda c: lambda mdl: dict(validator="TemperatureBinSettings", cfg=repr(c), model={str(x): str(mdl[x]) for x in mdl.decls()}))((method, n_bins, bws, include, rate, pct)))
        case.prove(p, z3.BoolVal(outs[0] == "reject") == r1, "temperature-bin count/width combination rejected exactly as documented", replay=rp)
        case.prove(p, z3.BoolVal(outs[1] == "reject") == r2, "edge-bin combination rejected exactly as documented", replay=rp)
        if "reject" in outs:
            case.regime("cross-field validator rejects")
    case.sample(dict(validator="TemperatureBinSettings", paths=len(paths)))


def run_elasticnet(case):
    cls = hs.ElasticNetSettings

    def run():
        aw = F.choose("aw", [False, True])
        it = F.choose("iter", [None, 10])
        tol = F.choose("tol", [None, "float"])
        d = defaults_of(cls)
        d.update(adaptive_weights=aw, adaptive_weight_max_iter=it, adaptive_weight_tol=None if tol is None else real("aw_tol"))
        obj = cls.model_construct(**d)
        try:
            validator(cls, "_check_adaptive_weights")(obj)
            return aw, it, tol, "accept"
        except ValueError:
            return aw, it, tol, "reject"

    paths = case.explore(run)
    for p in paths:
        if p.outcome != "ret":
            case.rep["harness_errors"].append(f"elasticnet scenario raised {p.value!r}")
            continue
        aw, it, tol, out = p.value
        want = (it is None or tol is None) if aw else (it is not None or tol is not None)
        case.prove(p, (out == "reject") == want, "adaptive-weight settings rejected <=> incomplete when enabled or present when disabled",
                   replay=("note", (lambda c: lambda mdl: dict(validator="ElasticNetSettings", cfg=repr(c)))((aw, it, tol))))
    case.sample(dict(validator="ElasticNetSettings", paths=len(paths)))


def run_features(case):
    for cols, want in ((["temperature", "observed"], ["temperature"]), (["temperature", "ghi", "observed"], ["temperature", "ghi"]), (["ghi"], ["temperature", "ghi"])):
        s = hs.BaseHourlySettings()
        s2 = s.add_default_features(cols)
        ok = s2.train_features == want and s.train_features is None and s2.cvrmse_threshold == s.cvrmse_threshold
        if not case.ground(ok, "add_default_features: solar features iff a ghi column is present; original untouched"):
            case.violation("add_default_features: solar features iff a ghi column is present; original untouched", "note", dict(columns=cols, got=s2.train_features), "")
    case.rep["paths"] += 3
    case.rep["nontrivial_paths"] += 3
    case.sample(dict(columns_tried=3))


# ------------------------------------------------------------------ ground

def current_defaults():
    from opendsm.eemeter.models.daily.model import DailyModel
    from opendsm.eemeter.models.billing.model import BillingModel
    from opendsm.eemeter.models.hourly.model import HourlyModel
    out = {
        "DailyModel()": DailyModel().settings.model_dump(mode="json"),
        "DailyModel(model='legacy')": DailyModel(model="legacy").settings.model_dump(mode="json"),
        "BillingModel()": BillingModel().settings.model_dump(mode="json"),
        "BillingSettings()": BillingSettings().model_dump(mode="json"),
        "HourlyModel()": {k: v for k, v in HourlyModel().settings.model_dump(mode="json").items()},
        "HourlySolarSettings()": hs.HourlySolarSettings().model_dump(mode="json"),
        "HourlyNonSolarSettings()": hs.HourlyNonSolarSettings().model_dump(mode="json"),
    }
    return json.loads(json.dumps(out, default=str))


def run_defaults(case):
    with open(os.path.join(ROOT, "oracles", "approved_constants.json")) as f:
        pinned = json.load(f)
    cur = current_defaults()
    for name, want in pinned.items():
        got = cur.get(name)
        diffs = []
        if got is None:
            diffs = ["missing"]
        else:
            for k in sorted(set(want) | set(got)):
                if want.get(k) != got.get(k):
                    diffs.append(f"{k}: approved {want.get(k)!r} != {got.get(k)!r}")
        if not case.ground(not diffs, "constructed without arguments: exactly the approved method constants"):
            case.violation("constructed without arguments: exactly the approved method constants", "defaults", dict(name=name), "; ".join(diffs[:5]))
    case.rep["paths"] += len(pinned)
    case.rep["nontrivial_paths"] += len(pinned)
    case.sample(dict(profiles=list(pinned)))


def replay_defaults(inp):
    with open(os.path.join(ROOT, "oracles", "approved_constants.json")) as f:
        pinned = json.load(f)
    cur = current_defaults()
    name = inp["name"]
    return pinned[name] != cur.get(name), f"{name}: differs from the pinned approved constants"


ALT = {bool: lambda v: not v, float: lambda v: v + 0.5 if v < 0.5 else v * 0.5, int: lambda v: v + 1}


def constructor_catalogue():
    """(description, callable, expect) with expect in {'reject','accept'}; all through the real constructors"""
    from opendsm.eemeter.models.daily.model import DailyModel
    from opendsm.eemeter.models.billing.model import BillingModel
    items = []
    for key, cls in DAILY_CLASSES.items():
        base = defaults_of(cls)
        for k in dev_fields(cls):
            v = base[k]
            special = {"alpha_minimum": -50.0, "alpha_selection": 1.0, "regularization_percent_lasso": 0.5, "initial_step_percentage": 0.2,
                       "alpha_final": 1.5}
            if isinstance(v, bool):
                a = not v
            elif k in special:
                a = special[k]
            elif isinstance(v, int):
                a = v + 1
            elif isinstance(v, float):
                a = v + 1.0
            elif isinstance(v, AlgorithmChoice):
                a = "nlopt_direct" if v != AlgorithmChoice.NLOPT_DIRECT else "nlopt_sbplx"
            elif isinstance(v, st.FullModelSelection):
                a = "tidd"
            elif isinstance(v, st.AlphaFinalType):
                a = "all"
            elif v == "adaptive":
                a = 2.0
            else:
                continue
            for variant, kk in (("plain", k), ("upper", k.upper()), ("spaces", f"  {k} ")):
                items.append((f"{cls.__name__}({kk!r}={a!r})", (lambda c, kk, a: lambda: c(**{kk: a}))(cls, kk, a), "reject"))
            items.append((f"{cls.__name__}({k}={a!r}, developer_mode=True)", (lambda c, k, a: lambda: c(**{k: a, "developer_mode": True, "silent_developer_mode": True}))(cls, k, a), "accept"))
        for k in type(base["split_selection"]).model_fields:
            v = getattr(base["split_selection"], k)
            a = (not v) if isinstance(v, bool) else (v + 1 if isinstance(v, (int, float)) else None)
            if a is None:
                continue
            items.append((f"{cls.__name__}(split_selection={{{k!r}: {a!r}}})", (lambda c, k, a: lambda: c(split_selection={k: a}))(cls, k, a), "reject"))
            items.append((f"{cls.__name__}(SPLIT_SELECTION={{{k.upper()!r}: {a!r}}})", (lambda c, k, a: lambda: c(**{"SPLIT_SELECTION": {k.upper(): a}}))(cls, k, a), "reject"))
        for scls in SPLIT_CLASSES:  # nested block handed over as an object (own or sibling class)
            own, dflt = scls(), base["split_selection"]
            differs = any(f.json_schema_extra["developer"] and getattr(own, n) != getattr(dflt, n) for n, f in scls.model_fields.items())
            fits = isinstance(own, type(dflt))  # an object that is not of the declared block type is an invalid value
            items.append((f"{cls.__name__}(split_selection={scls.__name__}())", (lambda c, sc: lambda: c(split_selection=sc()))(cls, scls), "reject" if differs or not fits else "accept"))
            items.append((f"{cls.__name__}(split_selection={scls.__name__}(), developer_mode=True)",
                          (lambda c, sc: lambda: c(split_selection=sc(), developer_mode=True, silent_developer_mode=True))(cls, scls), "accept" if fits else "reject"))
        items.append((f"{cls.__name__}(uncertainty_alpha=0.2)", (lambda c: lambda: c(uncertainty_alpha=0.2))(cls), "accept"))
        items.append((f"{cls.__name__}(season={{'january': 'Summer '}})", (lambda c: lambda: c(season={"January": "Summer "}))(cls), "accept"))
        items.append((f"{cls.__name__}(season={{'january': 'spring'}})", (lambda c: lambda: c(season={"january": "spring"}))(cls), "reject"))
        items.append((f"{cls.__name__}(uncertainty_alpha=1.5)", (lambda c: lambda: c(uncertainty_alpha=1.5))(cls), "reject"))
        items.append((f"{cls.__name__}(cvrmse_threshold=-1, developer_mode=True)", (lambda c: lambda: c(cvrmse_threshold=-1, developer_mode=True, silent_developer_mode=True))(cls), "reject"))
    items.append(("DailyModel(settings={'CVRMSE_THRESHOLD': 2})", lambda: DailyModel(settings={"CVRMSE_THRESHOLD": 2}), "reject"))
    items.append(("DailyModel(settings={'developer_mode': True, 'cvrmse_threshold': 2})", lambda: DailyModel(settings={"developer_mode": True, "silent_developer_mode": True, "cvrmse_threshold": 2}), "accept"))
    items.append(("BillingModel(settings={'segment_minimum_count': 5})", lambda: BillingModel(settings={"segment_minimum_count": 5}), "reject"))
    items.append(("DailyModel(model='legacy', settings={'allow_smooth_model': True})", lambda: DailyModel(model="legacy", settings={"allow_smooth_model": True}), "reject"))
    # key/value normalisation reaches strings inside list-typed fields (the option lists of the calendar maps)
    for key, cls in DAILY_CLASSES.items():
        items.append((f"{cls.__name__}(weekday_weekend={{'options': ['Weekday', 'Weekend']}})", (lambda c: lambda: _expect_equal(c(weekday_weekend={"options": ["Weekday", "Weekend"]}), c()))(cls), "accept"))
        items.append((f"{cls.__name__}(season={{'OPTIONS': ['Summer', 'Shoulder ', 'Winter'], 'MAY': 'Summer '}})",
                      (lambda c: lambda: _expect_equal(c(season={"OPTIONS": ["Summer", "Shoulder ", "Winter"], "MAY": "Summer "}), c(season={"may": "summer"})))(cls), "accept"))
    # the update helper validates like a constructor: developer-only fields stay locked, values are checked
    for key, cls in DAILY_CLASSES.items():
        if cls.__name__ == "BillingSettings":
            continue  # the helper rebuilds billing settings as legacy settings (their differing constants then trip the lock)
        base = defaults_of(cls)
        for k, a in (("alpha_selection", 1.0), ("cvrmse_threshold", 2.0), ("segment_minimum_count", base["segment_minimum_count"] + 1), ("allow_smooth_model", not base["allow_smooth_model"])):
            items.append((f"update_daily_settings({cls.__name__}(), {{{k!r}: {a!r}}})", (lambda c, k, a: lambda: st.update_daily_settings(c(), {k: a}))(cls, k, a), "reject"))
            items.append((f"update_daily_settings({cls.__name__}(), {{{k.upper()!r}: {a!r}, 'DEVELOPER_MODE': True}})",
                          (lambda c, k, a: lambda: _expect_value(st.update_daily_settings(c(), {k.upper(): a, "DEVELOPER_MODE": True, "SILENT_DEVELOPER_MODE": True}), k, a))(cls, k, a), "accept"))
        items.append((f"update_daily_settings({cls.__name__}(), {{'split_selection': {{'penalty_power': 3}}}})", (lambda c: lambda: st.update_daily_settings(c(), {"split_selection": {"penalty_power": 3}}))(cls), "reject"))
        items.append((f"update_daily_settings({cls.__name__}(), {{'uncertainty_alpha': 0.2}})", (lambda c: lambda: _expect_value(st.update_daily_settings(c(), {"uncertainty_alpha": 0.2}), "uncertainty_alpha", 0.2))(cls), "accept"))
        items.append((f"update_daily_settings({cls.__name__}(), developer mode, cvrmse_threshold=-1)", (lambda c: lambda: st.update_daily_settings(c(), {"developer_mode": True, "silent_developer_mode": True, "cvrmse_threshold": -1}))(cls), "reject"))
        items.append((f"update_daily_settings({cls.__name__}(), developer mode, season january=monsoon)", (lambda c: lambda: st.update_daily_settings(c(), {"developer_mode": True, "silent_developer_mode": True, "season": {"january": "monsoon"}}))(cls), "reject"))
    # a model handed a ready-made settings OBJECT (own or another family's class): refused, or the model ends up with exactly
    # the approved constants of its own family
    fam = {"DailyModel()": (lambda s: DailyModel(settings=s), DAILY_CLASSES["daily"]), "DailyModel(model='legacy')": (lambda s: DailyModel(model="legacy", settings=s), DAILY_CLASSES["legacy"]),
           "BillingModel()": (lambda s: BillingModel(settings=s), type(BillingModel().settings))}
    for mname, (mk_model, own_cls) in fam.items():
        for scls in DAILY_CLASSES.values():
            items.append((f"{mname} with settings={scls.__name__}() object", (lambda mk, sc, oc: lambda: _expect_approved(mk(sc()), oc))(mk_model, scls, own_cls), "accept"))
    return items


def _expect_equal(a, b):
    if a.model_dump() != b.model_dump():
        raise AssertionError("spelling variant of an option list gives other settings than the plain spelling")
    return a


def _expect_value(obj, k, a):
    if not isinstance(obj, st.DailySettings) or getattr(obj, k) != a or not isinstance(obj.split_selection, st.BaseSettings):
        raise AssertionError(f"update did not yield validated settings carrying {k}={a!r}")
    return obj


class _Refused(Exception):
    pass


def _expect_approved(model, own_cls):
    """reached only if the constructor accepted the object: then the model must carry its family's approved constants"""
    if model.settings.model_dump() != own_cls().model_dump():
        raise AssertionError(f"model built from a settings object carries non-approved constants without developer mode ({type(model.settings).__name__})")
    return model


def run_constructors(case):
    items = constructor_catalogue()
    for i, (desc, fn, expect) in enumerate(items):
        bad, det = _try_ctor(fn, expect, desc)
        label = "constructor: developer-only change rejected without developer_mode, accepted with it; invalid values rejected"
        if not case.ground(not bad, label):
            case.violation(label, "ctor", dict(index=i, desc=desc), det)
    case.rep["paths"] += len(items)
    case.rep["nontrivial_paths"] += len(items)
    case.sample(dict(constructor_calls=len(items), examples=[d for d, _, _ in items[:4]]))
    # stored settings are the ones the model was built with
    from opendsm.eemeter.models.daily.model import DailyModel
    m = DailyModel(settings={"developer_mode": True, "silent_developer_mode": True, "cvrmse_threshold": 2, "season": {"january": "summer"}})
    d = m.settings.model_dump()
    ok = d["cvrmse_threshold"] == 2 and d["season"]["january"] == "summer" and d["developer_mode"] is True
    m2 = DailyModel(settings=d)
    ok = ok and m2.settings.model_dump() == d
    # ... also through a fit: what _fit records in the stored parameters are the settings of the model object, None values included
    from . import c04 as _c04
    import types as _t
    from opendsm.eemeter.models.daily.parameters import ModelCoefficients
    from opendsm.eemeter.models.billing.model import BillingModel as _BM
    profiles = [("DailyModel()", lambda: DailyModel()), ("DailyModel(model='legacy')", lambda: DailyModel(model="legacy")), ("BillingModel()", lambda: _BM()),
                ("DailyModel(developer profile with None fields)", lambda: DailyModel(settings={"developer_mode": True, "silent_developer_mode": True, "alpha_final_type": None, "final_bounds_scalar": None}))]
    for pname, mk in profiles:
        mm = mk()
        mm._initialize_data = lambda md: (md, None)
        mm._combinations = lambda: ["fw-su_sh_wi"]
        mm._components = lambda: ["fw-su_sh_wi"]
        comp = _t.SimpleNamespace(wSSE=1.0, N=4, resid=np.array([0.5, -0.5, 0.5, -0.5]), obs=np.array([0.5, 1.5, 0.5, 1.5]))
        mm._fit_components = lambda: {"fw-su_sh_wi": comp}
        mm._best_combination = lambda print_out=False: "fw-su_sh_wi"
        sub = _t.SimpleNamespace(T_min=0.0, T_max=100.0, T_min_seg=5.0, T_max_seg=95.0, f_unc=1.0, named_coeffs=ModelCoefficients(model_type="tidd", intercept=10.0))
        mm._final_fit = lambda combo: {"fw-su_sh_wi": sub}
        fam = "billing" if isinstance(mm, _BM) else "daily"
        mm.fit(_c04.pick_data(fam, "baseline", 0, "US/Pacific"), ignore_disqualification=True)
        stored = json.loads(json.dumps(mm.to_dict()["settings"], default=str))
        own = json.loads(json.dumps(mm.settings.model_dump(), default=str))
        for k in ("developer_mode", "silent_developer_mode"):  # to_dict marks legacy/billing values as overrides so that they reload
            own.pop(k, None), stored.pop(k, None)
        back = type(mm).from_dict(mm.to_dict())
        again = json.loads(json.dumps(back.settings.model_dump(), default=str))
        again.pop("developer_mode", None), again.pop("silent_developer_mode", None)
        ok2 = stored == own and again == stored
        label2 = "the settings recorded in a stored model are the ones the model was built with (through fit, None values included)"
        if not case.ground(ok2, label2):
            missing = sorted(set(own) - set(stored)) + [f"split_selection.{k}" for k in set(own.get("split_selection", {})) - set(stored.get("split_selection", {}))]
            case.violation(label2, "note", dict(profile=pname, missing=missing), f"{pname}: stored settings differ from the model's (fields missing from the stored form: {missing})")
    if not case.ground(ok, "settings dump -> constructor round trip keeps the settings the model was built with"):
        case.violation("settings dump -> constructor round trip keeps the settings the model was built with", "note", dict(dump=str(d)[:300]), "")


def _try_ctor(fn, expect, desc):
    import contextlib, io
    try:
        with contextlib.redirect_stdout(io.StringIO()):
            fn()
        got = "accept"
    except AssertionError as ex:
        return True, f"{desc}: {ex}"
    except Exception as ex:
        got = "reject"
        if "settings=" in desc and "object" in desc:
            got = "accept"  # a refusal is fine for a settings object
    return got != expect, f"{desc}: {got}, expected {expect}"


def replay_ctor(inp):
    items = constructor_catalogue()
    desc, fn, expect = items[inp["index"]]
    return _try_ctor(fn, expect, desc)


def replay_note(inp):
    return True, f"validator verdict differs from the documented rule: {inp}"


REPLAY = {"lock": replay_lock, "note": replay_note, "defaults": replay_defaults, "ctor": replay_ctor}


def run_case(case: Case, name: str):
    kind, arg = name.split("/")
    if kind == "lock":
        return run_lock(case, arg, False)
    if kind == "lockall":
        return run_lock(case, arg, True)
    if kind == "cross":
        return run_cross(case, arg)
    if kind == "maps":
        return run_maps(case, arg)
    if kind == "hourly":
        return {"tempbin": run_tempbin, "elasticnet": run_elasticnet, "features": run_features}[arg](case)
    return {"defaults": run_defaults, "constructors": run_constructors}[arg](case)
