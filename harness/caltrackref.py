"""Shared pieces for the CalTRACK-hourly cases (C01, C02, C05): the stored three_month_weighted model that ships with the
repository's tests (tests/legacy_hourly.json; fitting takes ~15 minutes here) loaded through the wrapper's own
from_2_0_dict, with per-month uncertainty inputs filled in as a fit would; real CalTRACK reporting data objects.
Everything is concrete (patsy/statsmodels object graphs); the solver only chooses scenario variants."""
from __future__ import annotations

import copy
import json
import os

import numpy as np
import pandas as pd

import opendsm
from opendsm.eemeter.models.hourly_caltrack.data import HourlyBaselineData, HourlyReportingData
from opendsm.eemeter.models.hourly_caltrack.wrapper import HourlyModel

FIXTURE = os.path.join(os.path.dirname(os.path.dirname(os.path.abspath(opendsm.__file__))), "tests", "legacy_hourly.json")
SPANS = {"january-february": ("2021-01-20", 20), "june": ("2021-06-03", 12), "october-november": ("2021-10-25", 14)}
_DOC = None


def document(int_keys=False, holes=False):
    """stored form of a fitted model: the legacy document + the uncertainty inputs of every month (keys are month numbers:
    ints on a freshly fitted model object, strings once the document went through JSON)"""
    global _DOC
    if _DOC is None:
        with open(FIXTURE) as f:
            _DOC = json.load(f)
    doc = copy.deepcopy(_DOC)
    if holes:
        # a baseline shorter than a year leaves segments without data: their occupancy column is all null (here the three
        # segments centred on August-October; the reporting spans of SPANS avoid those months except "october-november")
        ol = json.loads(doc["model"]["occupancy_lookup"])
        for name in ("jul-aug-sep-weighted", "aug-sep-oct-weighted"):
            j = ol["columns"].index(name)
            for row in ol["data"]:
                row[j] = None
        doc["model"]["occupancy_lookup"] = json.dumps(ol)
    doc["model"]["unc_vars"] = {(m if int_keys else str(m)): {"mean_baseline_usage": 1.0 + 0.05 * m, "n": 2000.0 + m, "n_prime": 700.0 + 3 * m, "MSE": 0.04 + 0.001 * m}
                                for m in range(1, 13)}
    return doc


def model(int_keys=False, holes=False):
    return HourlyModel.from_dict(document(int_keys, holes))


def frame(span, usage="present", tz="UTC", seed=3):
    start, days = SPANS[span]
    idx = pd.date_range(pd.Timestamp(start, tz=tz), periods=24 * days, freq="h")
    rng = np.random.default_rng(seed)
    df = pd.DataFrame({"temperature": 55 + 25 * np.sin(np.arange(len(idx)) / 37.0) + rng.normal(0, 3, len(idx))}, index=idx)
    if usage != "absent":
        obs = 1.0 + rng.random(len(idx))
        if usage == "all-missing":
            obs[:] = np.nan
        elif usage == "partly-missing":
            obs[10:200] = np.nan
        elif usage == "doubled":
            obs = obs * 2
        elif usage == "with-zeros":
            obs[5] = 0.0
            obs[77] = 0.0
        df["observed"] = obs
    return df


def reporting(span, usage="present", tz="UTC"):
    return HourlyReportingData(frame(span, usage, tz), is_electricity_data=True)


def same(a, b):
    a, b = np.asarray(a, dtype=float), np.asarray(b, dtype=float)
    return a.shape == b.shape and a.tobytes() == b.tobytes()
