"""Shared runner for the data-class harnesses (C08, C09, C02-data): the REAL DailyBaselineData / DailyReportingData /
BillingBaselineData constructors (and from_series) are executed end-to-end on frames whose usage/temperature columns
are `symreal`; only _check_extreme_values (C10's business: float()/quantile) is stubbed."""
from __future__ import annotations

import contextlib

import numpy as np
import pandas as pd
import z3

import opendsm.eemeter.common.data_processor_utilities as dpu
import opendsm.eemeter.common.features as ft
import opendsm.eemeter.common.sufficiency_criteria as sc
import opendsm.eemeter.models.billing.data as bd
import opendsm.eemeter.models.daily.data as dd
from symv import engine as E
from symv.carriers import patched, symnp
from symv.proxies import NAN, SReal, is_nan, real
from symv.symarray import SymArray, cells

from . import dailyframe as F


@contextlib.contextmanager
def symbolic_dataclasses():
    with patched(sc.SufficiencyCriteria, _check_extreme_values=lambda self: None), patched(sc, np=symnp), patched(dpu, np=symnp), \
         patched(dd, np=symnp), patched(bd, np=symnp), patched(ft, np=symnp):
        yield


def col(prefix, n, nan_pos=(), sym=True, env=None, zero_pos=()):
    out = []
    for i in range(n):
        if i in nan_pos:
            out.append(NAN if sym else np.nan)
        elif i in zero_pos:
            out.append(0.0)
        elif sym:
            out.append(real(f"{prefix}{i}"))
        else:
            out.append(float(env.get(f"{prefix}{i}", 1.0)))
    return SymArray(out) if sym else np.array(out, dtype=float)


def local_days(idx):
    """positions of the rows of each local calendar day"""
    by = {}
    for i, t in enumerate(idx):
        by.setdefault(t.date(), []).append(i)
    return by


def day_slots(date, tz, step):
    """number of sampling intervals of `step` in the local calendar day (23/24/25-hour days)"""
    a = pd.Timestamp(date).tz_localize(tz)
    b = (pd.Timestamp(date) + pd.Timedelta(days=1)).tz_localize(tz)
    return int(round((b - a) / step))
