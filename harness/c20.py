"""C20 - baseline and reporting windows never leak across the intervention.

The real get_baseline_data / get_reporting_data (+ _make_*_warnings) are rebuilt with their globals pd, np, pytz,
timedelta, EEMeterWarning pointing at the symbolic time shim (symv/symtime.py) and executed on a series whose n
labels are symbolic strictly increasing instants (so hourly, daily and irregular billing series are all instances),
with symbolic values / NaN states, symbolic cut instant, max_days, overshoot tolerance and every option combination."""
from __future__ import annotations

import types

import numpy as np
import pandas as pd
import z3

import opendsm.eemeter.common.transform as tr
from opendsm.eemeter.common.exceptions import NoBaselineDataError, NoReportingDataError
from symv import engine as E
from symv import symtime as T
from symv.case import Case
from symv.proxies import NAN, SInt, SReal, is_nan, lift, model_env, real
from . import dailyframe as F

EXPLANATION = "C20: window selection with symbolic timestamps (time shim), all option combinations; every path validated against the real functions on real pandas."
BOUNDS = {"quick": dict(rows="n <= 4", max_days="0..800 or None", overshoot_days="0..60 or None", options="all 2x2 (x start/None variants)"),
          "thorough": dict(rows="n <= 6", max_days="0..800 or None", overshoot_days="0..60 or None", options="all")}
STUBS = ["pandas label slicing / get_indexer(nearest) / index.min/max / dropna / iloc / Timestamp.min/max -> symv/symtime.py (validated per path against real pandas)",
         "EEMeterWarning -> plain attribute object"]
MODELS_USED = ["symtime shim (~200 lines)"]
ASSUMPTIONS = ["labels are whole seconds, strictly increasing, tz-aware UTC in the replays (timezone handling of pandas is not modelled)",
               "the gap warning is owed relative to the *requested* limit (end/start argument)"]
EXPECTED_REGIMES = ["cut exactly on a timestamp", "cut between timestamps", "cut outside the data", "overshoot picks the earlier neighbour", "overshoot picks the later neighbour",
                    "empty selection", "all-NaN selection"]
DAY = T.DAY


def ENCODED():
    return [tr.get_baseline_data, tr.get_reporting_data, tr._make_baseline_warnings, tr._make_reporting_warnings]


def _rebuild():
    g = dict(tr.get_baseline_data.__globals__)
    g.update(pd=T.FakePd, np=T.FakeNp, timedelta=T.timedelta, pytz=T.FakePytz, EEMeterWarning=T.W)
    g["_make_baseline_warnings"] = types.FunctionType(tr._make_baseline_warnings.__code__, g)
    g["_make_reporting_warnings"] = types.FunctionType(tr._make_reporting_warnings.__code__, g)
    gb = types.FunctionType(tr.get_baseline_data.__code__, g, "get_baseline_data", tr.get_baseline_data.__defaults__)
    gr = types.FunctionType(tr.get_reporting_data.__code__, g, "get_reporting_data", tr.get_reporting_data.__defaults__)
    return gb, gr


def cases(tier, seed):
    ns = [1, 2, 3, 4] if tier != "thorough" else [1, 2, 3, 4, 5, 6]
    out = []
    for which in ("baseline", "reporting"):
        for n in ns:
            for variant in ("maxdays", "limits"):
                # the overshoot option is only exercised together with max_days (see the ground case below)
                for opts in (("00", "01", "10", "11") if variant == "maxdays" else ("00", "01")):
                    out.append(f"{which}/{n}/{variant}/{opts}")
    out.append("ground/overshoot-without-max_days")
    out.append("ground/dst-window")
    return out


def zvars(n):
    ts = [z3.Int(f"t{i}") for i in range(n)]
    vs = [z3.Real(f"v{i}") for i in range(n)]
    return ts, vs


def run_sym(which, n, variant, opts):
    """one symbolic execution of the real function; returns a dict describing the outcome"""
    eng = E.cur()
    gb, gr = _rebuild()
    ts, vs = zvars(n)
    for i in range(n):
        eng.assume(z3.And(ts[i] > -3 * 10**9, ts[i] < 3 * 10**9))
        if i:
            eng.assume(ts[i - 1] < ts[i])
    vals, states = F.sym_cells("v", n)
    data = T.SSeries([T.STime(t) for t in ts], vals)
    over, ign = opts[0] == "1", opts[1] == "1"
    kw = dict(allow_billing_period_overshoot=over, ignore_billing_period_gap_for_day_count=ign)
    cut = T.STime(z3.Int("cut"))
    eng.assume(z3.And(z3.Int("cut") > -3 * 10**9, z3.Int("cut") < 3 * 10**9))
    other = None
    if variant == "maxdays":
        md = z3.Int("max_days")
        eng.assume(z3.And(md >= 0, md <= 800))
        kw["max_days"] = SInt(md)
        if which == "baseline":
            nd = F.choose("nd_kind", ["none", "int"])
            if nd == "int":
                eng.assume(z3.And(z3.Int("nd") >= 0, z3.Int("nd") <= 60))
                kw["n_days_billing_period_overshoot"] = SInt(z3.Int("nd"))
            else:
                kw["n_days_billing_period_overshoot"] = None
    else:
        kw["max_days"] = None
        ok = F.choose("other_kind", ["none", "given"])
        if ok == "given":
            other = T.STime(z3.Int("other"))
            eng.assume(z3.And(z3.Int("other") > -3 * 10**9, z3.Int("other") < 3 * 10**9))
    if which == "baseline":
        kw.update(end=cut, start=other)
        fn, err = gb, NoBaselineDataError
    else:
        kw.update(start=cut, end=other)
        fn, err = gr, NoReportingDataError
    before = list(data.vals)
    try:
        out, warns = fn(data, **kw)
    except err:
        return dict(kind="empty", states=states, kw=_kwinfo(kw), unchanged=_same(before, data.vals))
    except Exception as ex:
        return dict(kind="raise", exc=type(ex).__name__, states=states, kw=_kwinfo(kw), unchanged=_same(before, data.vals))
    return dict(kind="ok", in_vals=before, states=states, kw=_kwinfo(kw), pos=list(out.index.pos), out_ts=[t.e for t in out.index.ts], out_vals=list(out.vals),
                warns=[w.qualified_name.split(".")[-1] for w in warns], unchanged=_same(before, data.vals), aliased=(out.vals is data.vals))


def _same(a, b):
    return len(a) == len(b) and all((x is y) or (is_nan(x) and is_nan(y)) for x, y in zip(a, b))


def _kwinfo(kw):
    return dict(nd_none=kw.get("n_days_billing_period_overshoot", None) is None, other_given=(kw.get("start") is not None and kw.get("end") is not None),
                max_days_none=kw.get("max_days") is None)


# ------------------------------------------------------------------ real run (validation + replay)

def run_real(which, n, variant, opts, env, states, kwinfo):
    base = pd.Timestamp("2020-01-01", tz="UTC")
    tsv = [base + pd.Timedelta(seconds=int(env[f"t{i}"])) for i in range(n)]
    vals = [float(env.get(f"v{i}", 0.0)) if states[i] == "val" else np.nan for i in range(n)]
    data = pd.Series(vals, index=pd.DatetimeIndex(tsv), dtype=float)
    snapshot = data.copy()
    over, ign = opts[0] == "1", opts[1] == "1"
    kw = dict(allow_billing_period_overshoot=over, ignore_billing_period_gap_for_day_count=ign)
    cut = base + pd.Timedelta(seconds=int(env["cut"]))
    other = None
    if variant == "maxdays":
        kw["max_days"] = int(env["max_days"])
        if which == "baseline":
            kw["n_days_billing_period_overshoot"] = None if kwinfo["nd_none"] else int(env["nd"])
    else:
        kw["max_days"] = None
        if kwinfo["other_given"]:
            other = base + pd.Timedelta(seconds=int(env["other"]))
    if which == "baseline":
        kw.update(end=cut, start=other)
        fn, err = tr.get_baseline_data, NoBaselineDataError
    else:
        kw.update(start=cut, end=other)
        fn, err = tr.get_reporting_data, NoReportingDataError
    try:
        out, warns = fn(data, **kw)
    except err:
        return dict(kind="empty", unchanged=data.equals(snapshot)), data, cut, other, kw
    except Exception as ex:
        return dict(kind="raise", exc=type(ex).__name__, unchanged=data.equals(snapshot)), data, cut, other, kw
    pos = [list(data.index).index(t) for t in out.index]
    return dict(kind="ok", pos=pos, out_vals=[float(x) for x in out.values], warns=[w.qualified_name.split(".")[-1] for w in warns],
                unchanged=data.equals(snapshot)), data, cut, other, kw


def check_concrete(which, r, data, cut, other, kw):
    """independent concrete oracle of the property on a real run; returns list of problems"""
    pr = []
    n = len(data)
    if not r["unchanged"]:
        pr.append("input series was modified")
    labels = list(data.index)
    finite = [np.isfinite(v) for v in data.values]
    if r["kind"] == "raise":
        return [f"raised {r['exc']} instead of returning a window or the dedicated empty-selection error"]
    if r["kind"] == "empty":
        return pr
    pos = r["pos"]
    if pos != list(range(pos[0], pos[0] + len(pos))):
        pr.append(f"not a contiguous slice of the input: positions {pos}")
    for p in pos:
        if which == "baseline" and labels[p] > cut:
            pr.append(f"row {labels[p]} after the requested end {cut}")
        if which == "reporting" and labels[p] < cut:
            pr.append(f"row {labels[p]} before the requested start {cut}")
        if other is not None:
            if which == "baseline" and labels[p] < other and not kw["allow_billing_period_overshoot"]:
                pr.append(f"row {labels[p]} before the requested start {other}")
            if which == "reporting" and labels[p] > other and not kw["allow_billing_period_overshoot"]:
                pr.append(f"row {labels[p]} after the requested end {other}")
    vals = r["out_vals"]
    for k, p in enumerate(pos):
        v, w = vals[k], data.values[p]
        if k == len(pos) - 1:
            if np.isfinite(v):
                pr.append("final row not blanked")
        elif not ((np.isnan(v) and np.isnan(w)) or v == w):
            pr.append(f"value changed at {labels[p]}: {w} -> {v}")
    if not any(finite[p] for p in pos):
        pr.append("all-NaN selection returned instead of the dedicated error")
    # max_days window
    md = kw.get("max_days")
    if md is not None and not kw["allow_billing_period_overshoot"]:
        if which == "baseline":
            ref = cut
            if kw["ignore_billing_period_gap_for_day_count"]:
                le = [t for t in labels if t <= cut]
                nd = kw.get("n_days_billing_period_overshoot")
                if le and (nd is None or cut - pd.Timedelta(days=nd) < le[-1]):
                    ref = le[-1]
            for p in pos:
                if labels[p] < ref - pd.Timedelta(days=md):
                    pr.append(f"row {labels[p]} earlier than max_days={md} before {ref}")
        else:
            ref = cut
            if kw["ignore_billing_period_gap_for_day_count"]:
                ge = [t for t in labels if t >= cut]
                if ge:
                    ref = ge[0]
            for p in pos:
                if labels[p] > ref + pd.Timedelta(days=md):
                    pr.append(f"row {labels[p]} later than max_days={md} after {ref}")
    # gap warnings relative to the requested limits
    w = set(r["warns"])
    if which == "baseline":
        want_end = labels[-1] < cut
        if want_end != ("gap_at_baseline_end" in w):
            pr.append(f"gap at requested end {'not ' if want_end else ''}reported (data ends {labels[-1]}, requested end {cut})" if want_end else "spurious end-gap warning")
        if other is not None:
            want_start = other < labels[0]
            if want_start != ("gap_at_baseline_start" in w):
                pr.append("gap at requested start not reported" if want_start else "spurious start-gap warning")
    else:
        want_start = cut < labels[0]
        if want_start != ("gap_at_reporting_start" in w):
            pr.append(f"gap at requested start {'not ' if want_start else ''}reported (data starts {labels[0]}, requested start {cut})" if want_start else "spurious start-gap warning")
        if other is not None:
            want_end = labels[-1] < other
            if want_end != ("gap_at_reporting_end" in w):
                pr.append("gap at requested end not reported" if want_end else "spurious end-gap warning")
    return pr


def replay_window(inp):
    r, data, cut, other, kw = run_real(inp["which"], inp["n"], inp["variant"], inp["opts"], inp["env"], inp["states"], inp["kwinfo"])
    pr = check_concrete(inp["which"], r, data, cut, other, kw)
    want = inp.get("label")
    if want:
        pr = [p for p in pr if _label_of(p) == want] if any(_label_of(p) == want for p in pr) else pr
    return bool(pr), "; ".join(pr[:3]) + f" | labels={[str(t) for t in data.index]} cut={cut} kw={ {k: str(v) for k, v in kw.items()} }"


def _label_of(problem):
    return None


REPLAY = {"window": replay_window}


# ------------------------------------------------------------------ case

def replay_ground(inp):
    """allow_billing_period_overshoot=True with max_days=None and no opposite limit"""
    idx = pd.date_range("2021-01-01", periods=4, freq="D", tz="UTC")
    s = pd.Series([1.0, 2.0, 3.0, 4.0], index=idx)
    try:
        if inp["which"] == "baseline":
            out, w = tr.get_baseline_data(s, end=idx[2], max_days=None, allow_billing_period_overshoot=True)
        else:
            out, w = tr.get_reporting_data(s, start=idx[1], max_days=None, allow_billing_period_overshoot=True)
    except (NoBaselineDataError, NoReportingDataError):
        return False, "dedicated error"
    except Exception as ex:
        return True, f"{type(ex).__name__}: {str(ex)[:120]}"
    return False, f"returned {len(out)} rows"


REPLAY["ground"] = replay_ground


def run_ground(case):
    for which in ("baseline", "reporting"):
        bad, det = replay_ground(dict(which=which))
        fid = "C20-overshoot-without-max_days"
        if bad and case.finding_open(fid):
            case.ground(True, "overshoot option without max_days (known finding)")
            case.known_finding(fid, "returns a window or raises the dedicated error", dict(which=which), det)
        elif not case.ground(not bad, "overshoot option without max_days returns a window or the dedicated error"):
            case.violation("overshoot option without max_days returns a window or the dedicated error", "ground", dict(which=which), det)
    case.rep["paths"] += 2
    case.rep["nontrivial_paths"] += 2
    case.sample(dict(ground="allow_billing_period_overshoot=True, max_days=None"))


DST_CATALOGUE = [("America/Chicago", "2016-10-21", 30, "h"), ("America/Chicago", "2016-10-21", 30, "D"), ("US/Pacific", "2021-02-20", 30, "h"),
                 ("Australia/Sydney", "2021-03-20", 20, "h"), ("Europe/London", "2021-10-15", 25, "D"), ("UTC", "2021-10-15", 25, "h")]


DST_FORMS = ["pd.Timestamp", "datetime+pytz", "datetime+zoneinfo"]


def replay_dstwin(inp):
    """tz-aware series across a DST change (timezone handling is not modelled by the shim: enumerated, concrete):
    the window is max_days of ELAPSED time from the cut, as for every other input"""
    zone, start, md, freq = DST_CATALOGUE[inp["index"]]
    idx = pd.date_range(pd.Timestamp(start, tz=zone) - pd.Timedelta(days=md + 5), pd.Timestamp(start, tz=zone) + pd.Timedelta(days=md + 5), freq=freq)
    s = pd.Series(np.arange(len(idx), dtype=float), index=idx)
    cut = pd.Timestamp(start, tz=zone)
    pr = []
    # the documented argument type is datetime.datetime: the same instant may arrive as a pandas Timestamp, as a datetime
    # localized by pytz, or as a datetime carrying a zoneinfo zone (whose own arithmetic is wall-clock)
    form = inp.get("form", "pd.Timestamp")
    arg = cut
    if form != "pd.Timestamp":
        import datetime as _dt
        naive = _dt.datetime.strptime(start, "%Y-%m-%d")
        if form == "datetime+zoneinfo":
            from zoneinfo import ZoneInfo
            arg = naive.replace(tzinfo=ZoneInfo(zone))
        else:
            import pytz
            arg = pytz.timezone(zone).localize(naive)
    rep, _ = tr.get_reporting_data(s, start=arg, max_days=md)
    if rep.index.min() < cut or rep.index.max() > cut + pd.Timedelta(days=md):
        pr.append(f"reporting window {rep.index.min()} .. {rep.index.max()} exceeds [{cut}, {cut + pd.Timedelta(days=md)}]")
    want = s[(s.index >= cut) & (s.index <= cut + pd.Timedelta(days=md))]
    if len(rep) != len(want):
        pr.append(f"reporting window has {len(rep)} rows, {len(want)} lie within max_days of the start")
    base, _ = tr.get_baseline_data(s, end=arg, max_days=md)
    wantb = s[(s.index <= cut) & (s.index >= cut - pd.Timedelta(days=md))]
    if base.index.max() > cut or base.index.min() < cut - pd.Timedelta(days=md) or len(base) != len(wantb):
        pr.append(f"baseline window {base.index.min()} .. {base.index.max()} ({len(base)} rows) vs expected {len(wantb)} rows within max_days before the end")
    return bool(pr), f"{zone} {start} max_days={md} freq={freq}, instant handed over as {form}: " + "; ".join(pr)


REPLAY["dstwin"] = replay_dstwin


def run_dstwin(case):
    for i in range(len(DST_CATALOGUE)):
        for form in DST_FORMS:
            bad, det = replay_dstwin(dict(index=i, form=form))
            if not case.ground(not bad, "windows across a DST change are max_days of elapsed time from the cut (tz-aware catalogue)"):
                case.violation("windows across a DST change are max_days of elapsed time from the cut (tz-aware catalogue)", "dstwin", dict(index=i, form=form), det)
    case.rep["paths"] += len(DST_CATALOGUE) * len(DST_FORMS)
    case.rep["nontrivial_paths"] += len(DST_CATALOGUE) * len(DST_FORMS)
    case.sample(dict(ground="tz-aware DST catalogue", entries=DST_CATALOGUE, instant_forms=DST_FORMS))


def run_case(case: Case, name: str):
    if name == "ground/dst-window":
        return run_dstwin(case)
    if name.startswith("ground/"):
        return run_ground(case)
    which, n, variant, opts = name.split("/")
    n = int(n)
    ts, vs = zvars(n)
    extra = [z3.Int("cut"), z3.Int("max_days"), z3.Int("nd"), z3.Int("other")]
    case.inputs = ts + vs + extra
    paths = case.explore(lambda: run_sym(which, n, variant, opts))
    cut = z3.Int("cut")
    over, ign = opts[0] == "1", opts[1] == "1"
    for p in paths:
        if p.outcome != "ret":
            case.rep["harness_errors"].append(f"shim run raised {p.value!r}")
            continue
        r = p.value
        mk = (lambda rr: lambda mdl: dict(which=which, n=n, variant=variant, opts=opts, env=_intenv(mdl, case.inputs), states=rr["states"], kwinfo=rr["kw"]))(r)
        rp = ("window", mk)
        m = case.twin(p)
        # --- shim validation on this path: the witness goes through the real function on real pandas
        if m is not None:
            env = _intenv(m, case.inputs)
            rr, data, rcut, rother, rkw = run_real(which, n, variant, opts, env, r["states"], r["kw"])
            same = rr["kind"] == r["kind"] and (r["kind"] != "ok" or (rr["pos"] == r["pos"] and sorted(rr["warns"]) == sorted(r["warns"]))) \
                and (r["kind"] != "raise" or rr.get("exc") == r.get("exc"))
            if same:
                case.rep["validated"] += 1
            else:
                case.rep["validation_mismatch"].append(dict(case=name, inputs=env, why=f"shim {_brief(r)} vs real {_brief(rr)}"))
                continue
        fid_e, fid_w = "C20-empty-overshoot", "C20-gap-not-reported"
        if r["kind"] == "raise":
            case.prove(p, False, "returns a window or raises the dedicated empty-selection error", replay=rp,
                       exclude=[(fid_e, z3.BoolVal(over and r.get("exc") == "IndexError"))])
            case.regime("empty selection")
            continue
        case.prove(p, r["unchanged"], "input series is never modified", replay=rp)
        if r["kind"] == "empty":
            case.regime("empty selection")
            if all(x == "nan" for x in r["states"]):
                case.regime("all-NaN selection")
            continue
        pos = r["pos"]
        case.prove(p, pos == list(range(pos[0], pos[0] + len(pos))) and not r["aliased"], "result is a contiguous slice (own copy) of the input", replay=rp)
        tz = [z3.Int(f"t{i}") for i in range(n)]
        leak = z3.And(*[(tz[q] <= cut) if which == "baseline" else (tz[q] >= cut) for q in pos])
        case.prove(p, leak, "no row beyond the requested end (baseline) / before the requested start (reporting)", replay=rp)
        # values
        ok_vals = len(r["out_vals"]) == len(pos) and is_nan(r["out_vals"][-1]) and \
            all((r["out_vals"][k] is r["in_vals"][q]) or (is_nan(r["out_vals"][k]) and is_nan(r["in_vals"][q])) for k, q in enumerate(pos[:-1]))
        case.prove(p, ok_vals, "values equal the input except the final row, which is blanked", replay=rp)
        case.prove(p, any(r["states"][q] == "val" for q in pos), "an all-NaN selection is never returned", replay=rp)
        # max_days window (no overshoot): measured from the requested limit, or from the nearest data label inside it when
        # ignore_billing_period_gap_for_day_count applies
        if variant == "maxdays" and not over:
            md = z3.Int("max_days")
            if which == "baseline":
                le = [z3.If(tz[i] <= cut, tz[i], z3.IntVal(-10**11)) for i in range(n)]
                last_le = le[0]
                for x in le[1:]:
                    last_le = z3.If(x > last_le, x, last_le)
                ref = cut
                if ign:
                    cond = z3.BoolVal(True) if r["kw"]["nd_none"] else (cut - z3.Int("nd") * DAY < last_le)
                    ref = z3.If(cond, last_le, cut)
                win = z3.And(*[tz[q] >= ref - md * DAY for q in pos])
            else:
                ge = [z3.If(tz[i] >= cut, tz[i], z3.IntVal(10**11)) for i in range(n)]
                first_ge = ge[0]
                for x in ge[1:]:
                    first_ge = z3.If(x < first_ge, x, first_ge)
                ref = first_ge if ign else cut
                win = z3.And(*[tz[q] <= ref + md * DAY for q in pos])
            case.prove(p, win, "no row outside max_days from the (possibly gap-adjusted) limit", replay=rp)
        if variant == "maxdays" and over:
            # nearest-boundary rule: the open end of the window is the input label nearest to the target
            md = z3.Int("max_days")
            if which == "baseline":
                cand = [i for i in range(n)]
                first = tz[pos[0]]
                inside = [z3.If(tz[i] <= cut, z3.BoolVal(True), z3.BoolVal(False)) for i in range(n)]
                last_le = z3.IntVal(-10**11)
                for i in range(n):
                    last_le = z3.If(z3.And(tz[i] <= cut, tz[i] > last_le), tz[i], last_le)
                if ign:
                    cond = z3.BoolVal(True) if r["kw"]["nd_none"] else (cut - z3.Int("nd") * DAY < last_le)
                    ref = z3.If(cond, last_le, cut)
                else:
                    ref = cut
                target = ref - md * DAY
                dist = lambda x: z3.If(x >= target, x - target, target - x)
                near = z3.And(*[z3.Implies(tz[i] <= cut, z3.Or(dist(first) < dist(tz[i]), z3.And(dist(first) == dist(tz[i]), first >= tz[i]))) for i in range(n)])
                case.prove(p, near, "with overshoot allowed the window opens at the input label nearest to the target (ties: the later one)", replay=rp)
                r1 = case.reach("o", p.pc + [first < target])
                r2 = case.reach("o2", p.pc + [first > target])
                case.regime("overshoot picks the earlier neighbour", r1 is not None)
                case.regime("overshoot picks the later neighbour", r2 is not None)
        # warnings relative to the requested limits
        w = set(r["warns"])
        if which == "baseline":
            want_end = tz[n - 1] < cut
            case.prove(p, z3.BoolVal("gap_at_baseline_end" in w) == want_end, "gap between the data and the requested end is reported (and only then)", replay=rp,
                       exclude=[(fid_w, z3.BoolVal(ign))])
            if r["kw"]["other_given"]:
                case.prove(p, z3.BoolVal("gap_at_baseline_start" in w) == (z3.Int("other") < tz[0]), "gap between the data and the requested start is reported (and only then)", replay=rp)
        else:
            want_start = cut < tz[0]
            case.prove(p, z3.BoolVal("gap_at_reporting_start" in w) == want_start, "gap between the data and the requested start is reported (and only then)", replay=rp,
                       exclude=[(fid_w, z3.BoolVal(ign))])
            if r["kw"]["other_given"]:
                case.prove(p, z3.BoolVal("gap_at_reporting_end" in w) == (tz[n - 1] < z3.Int("other")), "gap between the data and the requested end is reported (and only then)", replay=rp)
        case.regime("cut exactly on a timestamp", case.reach("c", p.pc + [z3.Or(*[t == cut for t in tz])]) is not None)
        case.regime("cut between timestamps", n > 1 and case.reach("c2", p.pc + [tz[0] < cut, cut < tz[n - 1]] + [t != cut for t in tz]) is not None)
        case.regime("cut outside the data", case.reach("c3", p.pc + [z3.Or(cut < tz[0], cut > tz[n - 1])]) is not None)
        if len(case.rep["samples"]) < 2 and m is not None:
            case.sample(dict(which=which, options=dict(overshoot=over, ignore_gap=ign), witness=_intenv(m, case.inputs), selected_positions=pos, warnings=r["warns"]))


def _brief(r):
    return {k: r[k] for k in ("kind", "pos", "warns", "exc") if k in r}


def _intenv(mdl, inputs):
    env = {}
    for v in inputs:
        val = mdl.eval(v, model_completion=True)
        if z3.is_int_value(val):
            env[v.decl().name()] = val.as_long()
        else:
            from symv.proxies import zval
            env[v.decl().name()] = zval(val)
    return env
