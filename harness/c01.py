"""C01 - a stored daily/billing model reproduces its counterfactual; the prediction is the
documented piecewise formula evaluated from the JSON parameters alone.

Solver-quantified: all coefficient values of the 7 shapes, all temperature limits, all T.
Ground (path-guided, not quantified): public-API JSON round trips at every path witness."""
from __future__ import annotations

import itertools
import json

import numpy as np
import z3

from symv import engine as E
from symv.carriers import patched
from symv.case import Case
from symv.claims import violated
from symv.proxies import SReal, lift, model_env

from . import dailyref as R
from .dailyref import FIELDS, SHAPES, TC, Z

EXPLANATION = ("C01: closed-form equality of _predict_submodel with the reference evaluated from the JSON fields; "
               "vector-form round trip from_np_arrays(to_np_array()); uncertainty pass-through; independence from the "
               "segment limits; plus concrete public-API JSON round trips (DailyModel/BillingModel from_dict/to_json) at "
               "every path witness.")
BOUNDS = {"quick": dict(evaluation_points=1, reals="unbounded", api_roundtrips="one per explored path witness"),
          "thorough": dict(evaluation_points=1, reals="unbounded", api_roundtrips="one per explored path witness + temperature grid -60..140F")}
STUBS = ["ModelCoefficients(...) inside from_np_arrays -> model_construct twin (pydantic-core validation bypassed)",
         "DailySubmodelParameters/ModelCoefficients built with model_construct in the symbolic runs"]
MODELS_USED = ["symnp.clip (ITE)", "EXP uninterpreted + axioms"]
ASSUMPTIONS = ["floats modelled as reals; witnesses replayed in float64",
               "pydantic-core validation/serialisation and CPython json float repr are outside the solver's reach: they are exercised concretely at each path witness only",
               "hourly family: one hand-written stored document per variant (scaling method, solar, route), concrete; fitting an hourly model does not run in the pinned environment",
               "CalTRACK-hourly family: the stored three_month_weighted model shipped with the repository tests (tests/legacy_hourly.json), concrete; no fit (15 minutes here)"]
EXPECTED_REGIMES = ["T below T_min", "T above T_max", "api round trip ran", "hourly model with two time-series features (solar)", "CalTRACK hourly model with usage (uncertainty computed)"]

IDS = {
    "hdd_tidd_cdd_smooth": ["hdd_bp", "hdd_beta", "hdd_k", "cdd_bp", "cdd_beta", "cdd_k", "intercept"],
    "hdd_tidd_cdd": ["hdd_bp", "hdd_beta", "cdd_bp", "cdd_beta", "intercept"],
    "hdd_tidd_smooth": ["c_hdd_bp", "c_hdd_beta", "c_hdd_k", "intercept"],
    "tidd_cdd_smooth": ["c_hdd_bp", "c_hdd_beta", "c_hdd_k", "intercept"],
    "hdd_tidd": ["c_hdd_bp", "c_hdd_beta", "intercept"],
    "tidd_cdd": ["c_hdd_bp", "c_hdd_beta", "intercept"],
    "tidd": ["intercept"],
}


def ENCODED():
    import opendsm.eemeter.models.daily.model as dm
    from opendsm.eemeter.models.daily.base_models import full_model as fm
    from opendsm.eemeter.models.daily.parameters import ModelCoefficients
    from opendsm.eemeter.models.daily.utilities import base_model as bm
    return [dm.DailyModel._predict_submodel, fm.full_model, fm.get_full_model_x, fm.fix_full_model_x,
            bm.get_smooth_coeffs, ModelCoefficients.to_np_array, ModelCoefficients.model_key,
            ModelCoefficients.from_np_arrays]


def cases(tier, seed):
    out = []
    for s in SHAPES:
        out += [f"{s}/closed", f"{s}/roundtrip", f"{s}/segindep"]
    out += ["hourly/stored", "hourly/fitted", "caltrack/stored", "refit/daily", "refit/billing"]
    return out


# ---------------------------------------------------------------- claims

def claims_closed(shape, V, O):
    T = V["T0"]
    return {
        "predicted == documented formula from JSON fields": O["predicted"][0] == R.reference(shape, V, T),
        "predicted_unc == stored f_unc": O["predicted_unc"][0] == V["f_unc"],
    }


def _outv(n=1):
    return {k: [Z(f"out_{k}_{i}") for i in range(n)] for k in ("predicted", "predicted_unc", "heating_load", "cooling_load")}


def replay_closed(inp):
    shape, label = inp["shape"], inp["label"]
    vals = {k: float(v) for k, v in inp["vals"].items()}
    out = R.real_predict_submodel(shape, vals, [vals["T0"]])
    # through the public API as well: from_dict(...)._predict on a one-day frame must agree with the kernel path
    V = R.input_vars(shape, 1)
    env = dict(vals)
    for k, lst in out.items():
        env[f"out_{k}_0"] = lst[0]
    bad = violated(claims_closed(shape, V, _outv())[label], env, rel=1e-9, abs_=1e-9)
    return bad, f"real outputs {out} at {vals}"


def replay_roundtrip(inp):
    from opendsm.eemeter.models.daily.parameters import ModelCoefficients
    shape = inp["shape"]
    vals = {k: float(v) for k, v in inp["vals"].items()}
    sub = R.make_submodel(shape, dict(vals, T_min=0.0, T_max=1.0, T_min_seg=0.0, T_max_seg=1.0, f_unc=0.0), construct=False)
    c = sub.coefficients
    c2 = ModelCoefficients.from_np_arrays(c.to_np_array(), IDS[shape])
    bad = c2.model_dump() != c.model_dump()
    return bad, f"{c.model_dump()} -> {c2.model_dump()}"


def replay_segindep(inp):
    shape = inp["shape"]
    vals = {k: float(v) for k, v in inp["vals"].items()}
    a = R.real_predict_submodel(shape, vals, [vals["T0"]])
    v2 = dict(vals, T_min_seg=vals["T_min_seg_b"], T_max_seg=vals["T_max_seg_b"])
    b = R.real_predict_submodel(shape, v2, [vals["T0"]])
    bad = any(abs(a[k][0] - b[k][0]) > 1e-9 * max(1, abs(a[k][0])) for k in a)
    if shape in ("hdd_tidd", "tidd_cdd"):
        bp = vals["hdd_bp" if shape == "hdd_tidd" else "cdd_bp"]
        pin = lambda lo, hi: min(max(bp, lo), hi)
        if pin(vals["T_min_seg"], vals["T_max_seg"]) != pin(v2["T_min_seg"], v2["T_max_seg"]):
            bad = False
    return bad, f"{a} vs {b}"


REPLAY = {"closed": replay_closed, "roundtrip": replay_roundtrip, "segindep": replay_segindep}


# ------------------------------------------------------------- API round trip

def api_roundtrip(shape, vals, grid=False):
    """concrete: DailyModel and BillingModel built from a stored document; document and predictions survive
    to_json/from_json exactly."""
    import pandas as pd
    from opendsm.eemeter.models.daily.model import DailyModel
    from opendsm.eemeter.models.billing.model import BillingModel
    sub = R.make_submodel(shape, {k: float(v) for k, v in vals.items() if k in FIELDS[shape] + TC + ["intercept", "f_unc"]}, construct=False)
    problems = []
    Ts = [vals.get("T0", 50.0)]
    if grid:
        Ts += list(np.linspace(-60, 140, 41))
    profiles = [("DailyModel()", DailyModel, {}), ("DailyModel(model='legacy')", DailyModel, dict(model="legacy")),
                ("DailyModel(developer settings)", DailyModel, dict(settings={"developer_mode": True, "silent_developer_mode": True, "cvrmse_threshold": 2})),
                ("DailyModel(custom season/weekday maps)", DailyModel, dict(settings={"season": {"january": "summer", "july": "winter"}, "weekday_weekend": {"friday": "weekend"}})),
                ("BillingModel()", BillingModel, {})]
    from opendsm.eemeter.models.daily.parameters import DailyModelParameters
    sd = sub.model_dump()
    sd2 = json.loads(json.dumps(sd)); sd2["coefficients"]["intercept"] = sd["coefficients"]["intercept"] + 3.0
    sd3 = json.loads(json.dumps(sd)); sd3["coefficients"]["intercept"] = sd["coefficients"]["intercept"] - 2.0
    layouts = [("one sub-model", {"fw-su_sh_wi": sd}),
               ("weekday/weekend split", {"wd-su_sh_wi": sd, "we-su_sh_wi": sd2}),
               ("season split", {"fw-su": sd, "fw-sh": sd2, "fw-wi": sd3})]
    # 14 January days + 14 July days: every weekday and two seasons occur; temperatures cycle through Ts
    idx = pd.date_range("2021-01-04", periods=14, freq="D", tz="US/Pacific").append(pd.date_range("2021-07-05", periods=14, freq="D", tz="US/Pacific"))
    if len(Ts) > len(idx):
        idx = pd.date_range("2021-01-04", periods=len(Ts), freq="D", tz="US/Pacific")
    temps = np.array([Ts[i % len(Ts)] for i in range(len(idx))], dtype=float)
    for (pname, cls, kw), (lname, subs) in itertools.product(profiles, layouts):
        pname = f"{pname}, {lname}"
        # the document a model of this profile writes: to_dict() of an instance carrying these parameters
        base = cls(**kw)
        base.params = DailyModelParameters(submodels=json.loads(json.dumps(subs)), settings=base.settings.model_dump(),
                                           info=dict(error={}, baseline_timezone="US/Pacific",
                                                     disqualification=[dict(qualified_name="eemeter.x", description="d", data={"a": 1.0})],
                                                     warnings=[dict(qualified_name="eemeter.w", description="w", data={})]))
        doc = base.to_dict()
        try:
            cls.from_dict(json.loads(json.dumps(doc)))
        except Exception as ex:
            problems.append(f"{pname}: document written by to_dict() is rejected by from_dict(): {type(ex).__name__}: {str(ex)[:120]}")
            continue
        m1 = cls.from_dict(json.loads(json.dumps(doc)))
        js1 = m1.to_json()
        m2 = cls.from_json(js1)
        js2 = m2.to_json()
        if js1 != js2:
            problems.append(f"{pname}: re-serialisation differs")
        if json.loads(js1) != json.loads(json.dumps(doc)):
            problems.append(f"{pname}: the reloaded model serialises to a different document than the one it was loaded from")
        if [w.qualified_name for w in m2.disqualification] != ["eemeter.x"] or [w.qualified_name for w in m2.warnings] != ["eemeter.w"]:
            problems.append(f"{pname}: warnings/disqualification lost")
        if str(m2.baseline_timezone) != "US/Pacific":
            problems.append(f"{pname}: timezone lost")
        # other meters' models live in the same process (built after this one, other calendars): they must not matter
        DailyModel(); BillingModel(); DailyModel(settings={"weekday_weekend": {"monday": "weekend", "sunday": "weekday"}})
        for form in FRAME_FORMS:
            problems += _api_predictions(f"{pname}, {form}", form, base, m1, m2, doc, subs, shape, vals, idx, temps)
    return problems


FRAME_FORMS = ("bare temperature column", "frame as the data classes hand it over (their season/weekday labels, usage)",
               "whole-degree temperatures in an integer column")


def _api_predictions(pname, form, base, m1, m2, doc, subs, shape, vals, idx, temps):
    import pandas as pd
    problems = []
    if True:
        df = pd.DataFrame({"temperature": temps}, index=idx)
        if form.startswith("frame as"):
            # the columns DailyReportingData/_merge_meter_temp attaches: labels from the library's default calendars
            import opendsm.eemeter.models.daily.data as _data
            df["observed"] = 1.0
            df["season"] = df.index.month_name().map(_data._const.default_season_def)
            df["weekday_weekend"] = df.index.day_name().map(_data._const.default_weekday_weekend_def)
            df = df[["season", "weekday_weekend", "temperature", "observed"]]
        elif form.startswith("whole-degree"):
            temps = np.round(temps)
            df = pd.DataFrame({"temperature": temps.astype("int64")}, index=idx)
        try:
            p0 = base._predict(df.copy())  # the original (never stored) model object
            p1 = m1._predict(df.copy())
            p2 = m2._predict(df.copy())
        except Exception as ex:
            return [f"{pname}: prediction raised {type(ex).__name__}: {str(ex)[:120]}"]
        for col in ("predicted", "predicted_unc", "heating_load", "cooling_load", "season", "day_of_week", "model_split", "model_type"):
            for who, q in (("reloaded model vs the original object", p0), ("second round trip vs first", p2)):
                a, b = p1[col].to_numpy(), q[col].to_numpy()
                same = a.tobytes() == b.tobytes() if a.dtype.kind == "f" else list(a) == list(b)
                if not same:
                    problems.append(f"{pname}: {col} not identical ({who})")
        # the document alone determines the value: each row equals the kernel evaluation of the sub-model the
        # document's own calendar maps select for that day
        st = doc["settings"]
        season_of = {i + 1: st["season"][mn] for i, mn in enumerate(["january", "february", "march", "april", "may", "june", "july", "august", "september", "october", "november", "december"])}
        wk_of = {i + 1: st["weekday_weekend"][dn] for i, dn in enumerate(["monday", "tuesday", "wednesday", "thursday", "friday", "saturday", "sunday"])}
        short = {"summer": "su", "shoulder": "sh", "winter": "wi", "weekday": "wd", "weekend": "we"}
        want = []
        for t, T in zip(idx, temps):
            key = None
            for k in subs:
                d, seas = k.split("-")
                if (d == "fw" or d == short[wk_of[t.dayofweek + 1]]) and short[season_of[t.month]] in seas.split("_"):
                    key = k
            v = dict(vals); v["intercept"] = subs[key]["coefficients"]["intercept"]
            want.append(R.real_predict_submodel(shape, v, [T])["predicted"][0])
        if not np.array_equal(p1["predicted"].to_numpy(), np.array(want)):
            bad = [str(t.date()) for t, a, b in zip(idx, p1["predicted"].to_numpy(), want) if a != b][:3]
            problems.append(f"{pname}: API prediction differs from the kernel evaluation of the sub-model the document selects (days {bad})")
    return problems


def replay_api(inp):
    pr = api_roundtrip(inp["shape"], {k: float(v) for k, v in inp["vals"].items()}, grid=inp.get("grid", False))
    return bool(pr), "; ".join(pr)


REPLAY["api"] = replay_api


# ---------------------------------------------------------------- run

# ---------------------------------------------------------------- hourly family (stored document, concrete)

def hourly_roundtrip(scaling, solar, route, extra=None, edge_bins=True):
    """a stored hourly model (document in the to_dict() layout) is loaded, re-serialised through `route`, loaded again:
    document, metadata and predictions must survive.  Concrete (pydantic, json, sklearn)."""
    import logging
    logging.disable(logging.CRITICAL)
    from opendsm.eemeter.models.hourly.model import HourlyModel
    from . import hourlyref as H
    doc = H.document(scaling=scaling, solar=solar, annotated=True, extra=extra, edge_bins=edge_bins)
    src = json.loads(json.dumps(doc))
    pr = []
    try:
        m1 = HourlyModel.from_dict(json.loads(json.dumps(doc)))
        # the same stored dict serves two loads (two workers, a cache): it must stay a plain, unchanged document
        HourlyModel.from_dict(doc)
        HourlyModel.from_dict(doc)
        if json.loads(json.dumps(doc, default=str)) != src:
            pr.append("from_dict changed the stored document it was given")
    except Exception as ex:
        return [f"stored document cannot be loaded (twice): {type(ex).__name__}: {str(ex)[:140]}"]
    try:
        if route == "json":
            text = m1.to_json()
            again = json.loads(text)
            m2 = HourlyModel.from_json(text)
        else:
            again = json.loads(json.dumps(m1.to_dict(), default=str))
            m2 = HourlyModel.from_dict(m1.to_dict())
    except Exception as ex:
        return [f"a model loaded from its stored form cannot be written/loaded again ({route}): {type(ex).__name__}: {str(ex)[:140]}"]
    diff = [k for k in src if k != "settings" and again.get(k) != src[k]]
    if diff:
        pr.append(f"re-serialised document differs from the stored one in {diff}")
    if str(m2.baseline_timezone) != "US/Pacific" or [w.qualified_name for w in m2.warnings] != ["eemeter.w"] or [w.qualified_name for w in m2.disqualification] != ["eemeter.x"]:
        pr.append("timezone / warnings / disqualification not kept")
    for span in (("2021-03-12", 4), ("2021-11-05", 4)):
        p1 = m1.predict(H.reporting(*span, ghi=solar, extra=extra), ignore_disqualification=True)
        p2 = m2.predict(H.reporting(*span, ghi=solar, extra=extra), ignore_disqualification=True)
        if list(p1.index) != list(p2.index) or p1["predicted"].to_numpy().tobytes() != p2["predicted"].to_numpy().tobytes():
            a, b = p1["predicted"].to_numpy(), p2["predicted"].to_numpy()
            n = int((a != b).sum()) if a.shape == b.shape else -1
            pr.append(f"reloaded model ({route}) predicts differently: {n} of {len(a)} hours from {span[0]}, mean {float(np.nanmean(a)):.4f} vs {float(np.nanmean(b)):.4f}")
            break
    return pr


def replay_hourly(inp):
    pr = hourly_roundtrip(inp["scaling"], inp["solar"], inp["route"], inp.get("extra"), inp.get("edge_bins", True))
    return bool(pr), "; ".join(pr)


REPLAY["hourly"] = replay_hourly


def run_hourly(case):
    from . import dailyframe as F
    case.inputs = []

    def run():
        cfg = dict(scaling=F.choose("scaling", ["standardscaler", "robustscaler"]), solar=F.choose("solar", [False, True]), route=F.choose("route", ["json", "dict"]),
                   extra=F.choose("extra", [None, "cloud"]), edge_bins=F.choose("edge_bins", [True, False]))
        return cfg, hourly_roundtrip(**cfg)

    paths = case.explore(run)
    for p in paths:
        if p.outcome != "ret":
            case.rep["harness_errors"].append(f"hourly round trip raised {p.value!r}")
            continue
        cfg, pr = p.value
        rp = ("hourly", (lambda c: lambda mdl: dict(c))(cfg))
        case.prove(p, not pr, "hourly model: stored document, metadata and predictions survive load -> write -> load", replay=rp)
        case.regime("hourly model with two time-series features (solar)", cfg["solar"])
        case.regime("hourly model with a supplemental time-series column", cfg["extra"] is not None)
        case.regime("hourly model fit without edge bins", not cfg["edge_bins"])
    case.sample(dict(family="hourly", variants=len(paths)))


# ---------------------------------------------------------------- CalTRACK-hourly family (stored document, concrete)

def caltrack_roundtrip(span, usage, route, tz):
    """the stored CalTRACK hourly model: the in-memory object a fit leaves behind (month keys are ints), its stored form,
    the model loaded from it, that model's stored form and the model loaded from that: same document, same predictions
    (incl. the per-month uncertainty), for every reporting span / usage variant"""
    import logging
    logging.disable(logging.CRITICAL)
    from . import caltrackref as CT
    pr = []
    m0 = CT.model(int_keys=True)
    data = CT.reporting(span, usage, tz)
    p0 = m0.predict(data)
    try:
        if route == "json":
            t1 = m0.to_json(); m1 = CT.HourlyModel.from_json(t1); t2 = m1.to_json(); m2 = CT.HourlyModel.from_json(t2)
            d1, d2 = json.loads(t1), json.loads(t2)
        else:
            d1 = json.loads(json.dumps(m0.to_dict())); m1 = CT.HourlyModel.from_dict(json.loads(json.dumps(m0.to_dict())))
            d2 = json.loads(json.dumps(m1.to_dict())); m2 = CT.HourlyModel.from_dict(json.loads(json.dumps(m1.to_dict())))
    except Exception as ex:
        return [f"a stored CalTRACK hourly model cannot be loaded and written again ({route}): {type(ex).__name__}: {str(ex)[:140]}"]
    if d1 != d2:
        pr.append(f"re-serialised document differs in {[k for k in d1 if d1[k] != d2.get(k)][:4]}")
    for who, m in (("loaded model", m1), ("model loaded from the re-serialised document", m2)):
        q = m.predict(CT.reporting(span, usage, tz))
        for col in ("predicted", "predicted_uncertainty"):
            if list(q.index) != list(p0.index) or not CT.same(p0[col], q[col]):
                a, b = p0[col].to_numpy(dtype=float), q[col].to_numpy(dtype=float)
                pr.append(f"{who}: {col} differs from the original object's ({int(np.isfinite(a).sum())} vs {int(np.isfinite(b).sum())} finite values, means {np.nanmean(a) if np.isfinite(a).any() else None} vs {np.nanmean(b) if np.isfinite(b).any() else None})")
    return pr


def replay_caltrack(inp):
    pr = caltrack_roundtrip(inp["span"], inp["usage"], inp["route"], inp["tz"])
    return bool(pr), "; ".join(pr[:3])


REPLAY["caltrack"] = replay_caltrack


def run_caltrack(case):
    from . import dailyframe as F
    from . import caltrackref as CT
    case.inputs = []

    def run():
        cfg = dict(span=F.choose("span", list(CT.SPANS)), usage=F.choose("usage", ["present", "absent", "partly-missing"]), route=F.choose("route", ["json", "dict"]),
                   tz=F.choose("tz", ["UTC", "US/Pacific"]))
        return cfg, caltrack_roundtrip(**cfg)

    paths = case.explore(run)
    for p in paths:
        if p.outcome != "ret":
            case.rep["harness_errors"].append(f"CalTRACK round trip raised {p.value!r}")
            continue
        cfg, pr = p.value
        case.prove(p, not pr, "CalTRACK hourly model: stored document and predictions (incl. uncertainty) survive store -> load -> store -> load", replay=("caltrack", (lambda c: lambda mdl: dict(c))(cfg)))
        case.regime("CalTRACK hourly model with usage (uncertainty computed)", cfg["usage"] == "present")
    case.sample(dict(family="CalTRACK hourly (tests/legacy_hourly.json, three_month_weighted)", variants=len(paths)))


# ---------------------------------------------------------------- a model object that was fitted before

def replay_refit(inp):
    """ONE model object is fitted on meter A, predicts, is fitted on meter B (real fit/_fit/_predict, optimiser stand-ins as in
    C02 refit): what it predicts, what its stored form predicts after a round trip and what a new object fitted on B predicts
    must be the same numbers (the stored form is rebuilt by every fit; nothing else may survive from the earlier one)"""
    from . import c02
    pr = c02.refit_scenario(inp["fam"], inp["poor_a"], inp["poor_b"], inp["predict_first"], False)
    pr = [x for x in pr if "predicted" in x or "reloaded" in x or "doc" in x]
    return bool(pr), "; ".join(pr[:3])


REPLAY["refit"] = replay_refit


def run_refit(case, fam):
    from . import dailyframe as F
    case.inputs = []

    def run():
        cfg = dict(fam=fam, poor_a=F.choose("poor_a", [False, True]), poor_b=F.choose("poor_b", [False, True]), predict_first=F.choose("predict_first", [False, True]))
        return cfg, replay_refit(cfg)

    paths = case.explore(run)
    for p in paths:
        if p.outcome != "ret":
            case.rep["harness_errors"].append(f"refit scenario raised {p.value!r}")
            continue
        cfg, (bad, det) = p.value
        label = "a model fitted a second time: the live object, its reloaded stored form and a new object fitted on the same data predict identically"
        if not case.ground(not bad, label):
            case.violation(label, "refit", cfg, det)
        case.regime("model object fitted twice, then stored and reloaded")
    case.sample(dict(family=fam, histories=len(paths)))


# ---------------------------------------------------------------- hourly family: a REAL fit (harness-side sklearn shim)

def replay_hourly_fitted(inp):
    """fit -> to_json -> from_json -> to_json -> from_json: same document (as data), same predictions on reporting data"""
    import logging
    logging.disable(logging.CRITICAL)
    from opendsm.eemeter.models.hourly.model import HourlyModel
    from . import hourlyref as H
    st = dict(scaling_method=inp["scaling"])
    if inp["adaptive"]:
        st["elasticnet"] = dict(adaptive_weights=True, adaptive_weight_max_iter=3, adaptive_weight_tol=1e-4)
    m, data = H.fitted(noise=0.05, gaps=(("temperature", 500, 503),), settings=st, solar=inp["solar"])
    pr = []
    t1 = m.to_json(); m1 = HourlyModel.from_json(t1); t2 = m1.to_json(); m2 = HourlyModel.from_json(t2)
    if json.loads(t1) != json.loads(t2):
        pr.append(f"re-serialised document differs in {[k for k in json.loads(t1) if json.loads(t1)[k] != json.loads(t2).get(k)][:4]}")
    for span in (("2021-03-12", 4), ("2021-11-05", 4)):
        p0 = m.predict(H.reporting(*span, ghi=inp["solar"]), ignore_disqualification=True)["predicted"].to_numpy()
        for who, mm in (("reloaded", m1), ("reloaded twice", m2)):
            q = mm.predict(H.reporting(*span, ghi=inp["solar"]), ignore_disqualification=True)["predicted"].to_numpy()
            if p0.tobytes() != q.tobytes():
                pr.append(f"{who} model predicts differently from the fitted object on {span[0]} ({int((p0 != q).sum())} of {len(p0)} hours)")
    if str(m1.baseline_timezone) != str(m.baseline_timezone) or [w.qualified_name for w in m1.disqualification] != [w.qualified_name for w in m.disqualification]:
        pr.append("timezone / disqualification not kept")
    return bool(pr), "; ".join(pr[:3])


REPLAY["hourly_fitted"] = replay_hourly_fitted


def run_hourly_fitted(case):
    from . import dailyframe as F
    case.inputs = []

    def run():
        inp = dict(scaling=F.choose("scaling", ["standardscaler", "robustscaler"]), solar=F.choose("solar", [False, True]), adaptive=F.choose("adaptive", [False, True]))
        return inp, replay_hourly_fitted(inp)

    paths = case.explore(run)
    for p in paths:
        if p.outcome != "ret":
            case.rep["harness_errors"].append(f"real hourly fit round trip raised {p.value!r}")
            continue
        inp, (bad, det) = p.value
        label = "a really fitted hourly model survives to_json/from_json twice: same document, bit-identical predictions"
        if not case.ground(not bad, label):
            case.violation(label, "hourly_fitted", inp, det)
        case.regime("real hourly fit stored and reloaded")
    case.sample(dict(entry="HourlyModel.fit -> to_json -> from_json (real fit)", fits=len(paths)))


def run_case(case: Case, name: str):
    shape, mode = name.split("/")
    if shape == "hourly" and name.endswith("/fitted"):
        return run_hourly_fitted(case)
    if shape == "hourly":
        return run_hourly(case)
    if shape == "caltrack":
        return run_caltrack(case)
    if shape == "refit":
        return run_refit(case, name.split("/")[1])
    if mode == "closed":
        return run_closed(case, shape)
    if mode == "roundtrip":
        return run_roundtrip(case, shape)
    return run_segindep(case, shape)


def run_closed(case, shape):
    V = R.input_vars(shape, 1)
    case.inputs = list(V.values())
    with R.symbolic_daily():
        paths = case.explore(lambda: R.sym_predict_submodel(shape, 1))
    api_done = 0
    for p in paths:
        b = lambda label: (lambda m: dict(shape=shape, label=label, vals=model_env(m, case.inputs)))
        if p.outcome != "ret":
            case.prove(p, False, "no exception", replay=("closed", b("predicted == documented formula from JSON fields")))
            continue
        O = {k: [z3.ToReal(lift(x)) if z3.is_int(lift(x)) else lift(x) for x in v] for k, v in p.value.items()}
        m = case.twin(p)
        excl = [("C11-bp-at-Tmax", R.region_c(shape, V, V["T0"]))]
        for label, claim in claims_closed(shape, V, O).items():
            case.prove(p, claim, label, replay=("closed", b(label)), exclude=excl)
        case.validate(p, p.value, lambda mdl: model_env(mdl, case.inputs),
                      lambda inp: R.real_predict_submodel(shape, inp, [inp["T0"]]))
        if m is not None:
            vals = model_env(m, case.inputs)
            if len(case.rep["samples"]) < 2:
                case.sample(dict(path_decisions=p.decisions, witness=vals))
            # ground obligation: public API round trip at this path's witness
            try:
                pr = api_roundtrip(shape, vals, grid=(case.tier == "thorough"))
            except Exception as ex:  # validation may reject a witness (e.g. none here); report
                pr = [f"api round trip raised {ex!r}"]
            ok = case.ground(not pr, "public API: from_dict/to_json/from_json round trip at path witness")
            api_done += 1
            if not ok:
                case.violation("public API: from_dict/to_json/from_json round trip at path witness", "api",
                               dict(shape=shape, vals=vals, grid=(case.tier == "thorough")), "; ".join(pr))
    case.regime("api round trip ran", api_done > 0)
    dom = R.domain(shape, V)
    case.reach("T below T_min", dom + [V["T0"] < V["T_min"]])
    case.reach("T above T_max", dom + [V["T0"] > V["T_max"]])


def run_roundtrip(case, shape):
    import opendsm.eemeter.models.daily.parameters as pm
    names = ["intercept"] + FIELDS[shape]
    V = {n: Z(n) for n in names}
    case.inputs = list(V.values())
    Real = pm.ModelCoefficients

    class Twin:  # permissive constructor standing in for the validated pydantic model
        def __new__(cls, **kw):
            return Real.model_construct(**kw)

    def run():
        eng = E.cur()
        full = dict(V, T_min=z3.RealVal(0), T_max=z3.RealVal(1), T_min_seg=z3.RealVal(0), T_max_seg=z3.RealVal(1), f_unc=z3.RealVal(0))
        for c in R.domain(shape, full)[5:]:
            if not any(str(t) in str(c) for t in TC):
                eng.assume(c)
        vals = {k: SReal(v) for k, v in V.items()}
        vals.update(T_min=0.0, T_max=1.0, T_min_seg=0.0, T_max_seg=1.0, f_unc=0.0)
        c = R.make_submodel(shape, vals).coefficients
        arr = c.to_np_array()
        with patched(pm, ModelCoefficients=Twin):
            c2 = Real.from_np_arrays.__func__(Real, arr, IDS[shape])
        return c, c2

    paths = case.explore(run)
    for p in paths:
        rp = ("roundtrip", lambda m: dict(shape=shape, vals=model_env(m, case.inputs)))
        if p.outcome != "ret":
            case.prove(p, False, "no exception", replay=rp)
            continue
        case.twin(p)
        c, c2 = p.value
        same = [z3.BoolVal(c2.model_type == c.model_type)]
        for f in ["intercept", "hdd_bp", "hdd_beta", "hdd_k", "cdd_bp", "cdd_beta", "cdd_k"]:
            a, b2 = getattr(c, f), getattr(c2, f)
            if a is None or b2 is None:
                same.append(z3.BoolVal(a is None and b2 is None))
            else:
                same.append(lift(a) == lift(b2))
        case.prove(p, z3.And(*same), "from_np_arrays(to_np_array(c), ids) == c", replay=rp)
        if len(case.rep["samples"]) < 1 and p.model is not None:
            case.sample(dict(witness=model_env(p.model, case.inputs)))


def run_segindep(case, shape):
    V = R.input_vars(shape, 1)
    V2 = dict(V, T_min_seg=Z("T_min_seg_b"), T_max_seg=Z("T_max_seg_b"))
    case.inputs = list(V.values()) + [V2["T_min_seg"], V2["T_max_seg"]]

    def run():
        eng = E.cur()
        for c in R.domain(shape, V2):
            eng.assume(c)
        a = R.sym_predict_submodel(shape, 1)
        vals = {k: SReal(v) for k, v in V2.items()}
        sub = R.make_submodel(shape, vals)
        m = object.__new__(R.dm.DailyModel)
        from symv.carriers import symarr
        model, unc, hl, cl = m._predict_submodel(sub, symarr([vals["T0"]]))
        return a, dict(predicted=list(model), predicted_unc=list(unc), heating_load=list(hl), cooling_load=list(cl))

    with R.symbolic_daily():
        paths = case.explore(run)
    for p in paths:
        rp = ("segindep", lambda m: dict(shape=shape, vals=model_env(m, case.inputs)))
        if p.outcome != "ret":
            case.prove(p, False, "no exception", replay=rp)
            continue
        case.twin(p)
        a, b = p.value
        eq = z3.And(*[lift(a[k][0]) == lift(b[k][0]) for k in a])
        if shape in ("hdd_tidd", "tidd_cdd"):
            bp = V["hdd_bp" if shape == "hdd_tidd" else "cdd_bp"]
            pin = lambda W: R.zmin(R.zmax(bp, W["T_min_seg"]), W["T_max_seg"])
            claim = z3.Implies(pin(V) == pin(V2), eq)
            label = "prediction depends on the segment limits only through the documented end-pinning"
        else:
            claim = eq
            label = "prediction independent of T_min_seg/T_max_seg"
        case.prove(p, claim, label, replay=rp)
