"""C13 - each day is predicted by exactly one sub-model: that of its season and day type.

Executed symbolically: DailyModel._combinations (inner _get_combinations, _remove_duplicate_permutations,
_trim_combinations), _components, _best_combination, _meter_segment and _initialize_data (season/day columns)."""
from __future__ import annotations

import itertools

import numpy as np
import pandas as pd
import z3

import opendsm.eemeter.models.daily.model as dm
from opendsm.eemeter.models.daily.utilities import settings as st
from symv import engine as E
from symv.carriers import patched
from symv.case import Case
from symv.proxies import SBool, SInt, SReal, boolean, integer, lift, model_env, real

from . import dailyframe as F

EXPLANATION = ("C13: candidate generation/trimming with symbolic allow flags, ellipsoid verdicts and day counts; routing of every "
               "(month, weekday) under default and custom maps; selection of the minimum criterion.")
BOUNDS = {"quick": dict(flags="5 symbolic booleans", ellipsoid="4 free booleans", day_counts="6 symbolic non-negative ints", candidates_for_selection="<= 4 free criteria"),
          "thorough": dict(flags="5 symbolic booleans", ellipsoid="4 free booleans", day_counts="6 symbolic non-negative ints", candidates_for_selection="<= 6 free criteria")}
STUBS = ["ellipsoid_split_filter -> 4 free booleans", "_combination_selection_criteria -> one free real per candidate",
         "df_meter -> duck-typed stand-in answering the three count expressions _trim_combinations evaluates"]
MODELS_USED = []
ASSUMPTIONS = ["ellipsoid filter numerics are outside the claim (any verdict is allowed)",
               "selection criteria are finite reals (NaN criteria outside the claim)"]
EXPECTED_REGIMES = ["only the unsplit model survives", "weekday/weekend split candidate", "three-season split candidate", "tie between candidates"]
SEAS = ["su", "sh", "wi"]
SEASON_NAME = {"su": "summer", "sh": "shoulder", "wi": "winter"}
CELLS = [(s, d) for s in SEAS for d in ("wd", "we")]


def ENCODED():
    return [dm.DailyModel._combinations, dm.DailyModel._components, dm.DailyModel._meter_segment, dm.DailyModel._initialize_data,
            dm.DailyModel._best_combination]


def cases(tier, seed):
    # top-level split on the five flags (exhaustive: 2^5 sub-cases) for parallelism; ellipsoid verdicts and counts stay symbolic
    out = ["combos/" + "".join(bits) for bits in itertools.product("01", repeat=5)]
    out += ["route/default", "route/custom-season", "route/custom-week", "route/reversed-options", "best/k", "best/refit"]
    return out


# ------------------------------------------------------------------ duck-typed meter

class _Mask:
    def __init__(self, counts, seasons=None, we=None):
        self.counts, self.seasons, self.we = counts, seasons, we

    @property
    def values(self):
        return self

    def __and__(self, o):
        return _Mask(self.counts, self.seasons if self.seasons is not None else o.seasons, self.we if self.we is not None else o.we)

    def sum(self):
        tot = 0
        for s in (self.seasons or ["summer", "shoulder", "winter"]):
            for d in (["we"] if self.we else ["wd", "we"]):
                tot = tot + self.counts[(s, d)]
        return tot


class _Col:
    def __init__(self, counts, name):
        self.counts, self.name = counts, name

    @property
    def values(self):
        return self

    def __eq__(self, o):
        return _Mask(self.counts, seasons=[o])

    __hash__ = None

    def isin(self, days):
        return _Mask(self.counts, we=True)


class Meter:
    def __init__(self, counts):
        self.counts = counts

    def __getitem__(self, k):
        return _Col(self.counts, k)


def cover(combo):
    cov = []
    for comp in combo.split("__"):
        days = ["wd", "we"] if comp[:2] == "fw" else [comp[:2]]
        for s in comp[3:].split("_"):
            for d in days:
                cov.append((s, d))
    return cov


def run_combos(flags, counts, ell, real_counts=None):
    """shared by symbolic run (proxies) and replay (python values)"""
    m = dm.DailyModel()
    ss = st.Split_Selection_Definition.model_construct(**{**{k: getattr(m.settings.split_selection, k) for k in st.Split_Selection_Definition.model_fields},
                                                          "allow_separate_summer": flags["su"], "allow_separate_shoulder": flags["sh"],
                                                          "allow_separate_winter": flags["wi"], "allow_separate_weekday_weekend": flags["wdwe"],
                                                          "reduce_splits_by_gaussian": flags["gauss"]})
    m.settings = st.DailySettings.model_construct(**{**{k: getattr(m.settings, k) for k in st.DailySettings.model_fields}, "split_selection": ss})
    m.df_meter = Meter(counts)
    with patched(dm, ellipsoid_split_filter=lambda df, n_std=None: ell):
        return m._combinations()


def combos_claims(flags_z, counts_z, ell_z, combos):
    """z3 claims about a concrete candidate list under symbolic flags/counts"""
    eff = {}
    for k, e in (("su", "summer"), ("sh", "shoulder"), ("wi", "winter"), ("wdwe", "weekday_weekend")):
        eff[k] = z3.And(flags_z[k], z3.Or(z3.Not(flags_z["gauss"]), ell_z[e]))

    def days(s, only_we=False):
        return sum((counts_z[(SEASON_NAME[s], d)] for d in (["we"] if only_we else ["wd", "we"])), z3.IntVal(0))
    cl = {"unsplit model is always a candidate": z3.BoolVal("fw-su_sh_wi" in combos),
          "every candidate partitions the 6 (season x day type) cells": z3.BoolVal(all(sorted(cover(c)) == sorted(CELLS) for c in combos)),
          "no duplicate candidates": z3.BoolVal(len(set("__".join(sorted(c.split("__"))) for c in combos)) == len(combos))}
    forb, supp = [], []
    for c in combos:
        if c == "fw-su_sh_wi":
            continue
        if "wd" in c:
            forb.append(eff["wdwe"])
        for comp in c.split("__"):
            seasons = comp[3:].split("_")
            if len(seasons) == 1:
                forb.append(eff[seasons[0]])
                supp.append(days(seasons[0]) >= 30)
            supp.append(sum((days(s, True) for s in seasons), z3.IntVal(0)) >= 8)
    cl["no candidate uses a split the settings (or the ellipsoid filter) forbid"] = z3.And(*forb) if forb else z3.BoolVal(True)
    cl["no candidate uses a split the data cannot support (>= 30 days per separate season, >= 8 weekend days per component)"] = z3.And(*supp) if supp else z3.BoolVal(True)
    return cl


def _zvars():
    flags = {k: z3.Bool(f"flag_{k}") for k in ("su", "sh", "wi", "wdwe", "gauss")}
    counts = {(SEASON_NAME[s], d): z3.Int(f"n_{s}_{d}") for s in SEAS for d in ("wd", "we")}
    ell = {k: z3.Bool(f"ell_{k}") for k in ("summer", "shoulder", "winter", "weekday_weekend")}
    return flags, counts, ell


def replay_combos(inp):
    env = inp["env"]
    flags_z, counts_z, ell_z = _zvars()
    flags = {k: bool(env[f"flag_{k}"]) for k in flags_z}
    counts = {k: int(env[v.decl().name()]) for k, v in counts_z.items()}
    ell = {k: bool(env[f"ell_{k}"]) for k in ell_z}
    combos = run_combos(flags, counts, ell)
    from symv.claims import violated
    cl = combos_claims(flags_z, counts_z, ell_z, combos)[inp["label"]]
    e2 = {k: (bool(v) if isinstance(v, bool) else v) for k, v in env.items()}
    return violated(cl, e2), f"candidates {combos} for {env}"


def run_case(case: Case, name: str):
    kind, arg = name.split("/")
    if kind == "combos":
        return run_combos_case(case, arg)
    if kind == "route":
        return run_route(case, arg)
    if arg == "refit":
        return run_best_refit(case)
    return run_best(case)


def _env_all(mdl, flags_z, counts_z, ell_z):
    env = {}
    for v in list(flags_z.values()) + list(ell_z.values()):
        env[v.decl().name()] = bool(z3.is_true(mdl.eval(v, model_completion=True)))
    for v in counts_z.values():
        env[v.decl().name()] = mdl.eval(v, model_completion=True).as_long()
    return env


def run_combos_case(case, arg):
    flags_z, counts_z, ell_z = _zvars()
    case.inputs = list(counts_z.values())
    fix = {k: arg[i] == "1" for i, k in enumerate(("gauss", "wdwe", "su", "sh", "wi"))}

    def run():
        eng = E.cur()
        for v in counts_z.values():
            eng.assume(v >= 0)
        for k, b in fix.items():
            eng.assume(flags_z[k] if b else z3.Not(flags_z[k]))
        flags = {k: SBool(v) for k, v in flags_z.items()}
        counts = {k: SInt(v) for k, v in counts_z.items()}
        ell = {k: SBool(v) for k, v in ell_z.items()}
        return run_combos(flags, counts, ell)

    paths = case.explore(run)
    sizes = set()
    for p in paths:
        rp = lambda label: ("combos", lambda mdl: dict(label=label, env=_env_all(mdl, flags_z, counts_z, ell_z)))
        if p.outcome != "ret":
            case.prove(p, False, "candidate generation does not raise", replay=rp("unsplit model is always a candidate"))
            continue
        combos = p.value
        sizes.add(len(combos))
        case.twin(p)
        for label, cl in combos_claims(flags_z, counts_z, ell_z, combos).items():
            case.prove(p, cl, label, replay=rp(label))
        case.regime("only the unsplit model survives", combos == ["fw-su_sh_wi"])
        case.regime("weekday/weekend split candidate", any("wd" in c for c in combos))
        case.regime("three-season split candidate", any(c.count("__") >= 2 and "wd" not in c for c in combos))
        if len(case.rep["samples"]) < 2 and p.model is not None and len(combos) > 1:
            case.sample(dict(witness=_env_all(p.model, flags_z, counts_z, ell_z), candidates=combos[:12], n_candidates=len(combos)))
    case.note(f"candidate set sizes seen: {sorted(sizes)}")


# ------------------------------------------------------------------ routing

CUSTOM = {
    "default": {},
    "custom-season": {"season": {"january": "summer", "february": "summer", "march": "winter", "april": "winter", "may": "shoulder", "june": "shoulder",
                                 "july": "winter", "august": "winter", "september": "shoulder", "october": "summer", "november": "shoulder", "december": "summer"}},
    "reversed-options": {"weekday_weekend": {"options": ["weekend", "weekday"], "friday": "weekend"}},  # the two labels listed in the other order
    "custom-week": {"weekday_weekend": {"monday": "weekend", "tuesday": "weekday", "wednesday": "weekday", "thursday": "weekday", "friday": "weekend",
                                        "saturday": "weekday", "sunday": "weekend"}},
}
_ALL = None


def all_candidates():
    global _ALL
    if _ALL is None:
        big = {k: 1000 for k in [(SEASON_NAME[s], d) for s in SEAS for d in ("wd", "we")]}
        _ALL = run_combos(dict(su=True, sh=True, wi=True, wdwe=True, gauss=False), big, {})
    return _ALL


def route_one(arg, month, dow_offset, carry=False, zone="US/Pacific"):
    """returns (problems) for the date with the given month and day-of-week under the settings variant `arg`"""
    m = dm.DailyModel(settings=CUSTOM[arg] or None)
    # another model object with another calendar, built afterwards: models must not share calendar tables
    decoy = dm.DailyModel(settings=CUSTOM["custom-week" if arg != "custom-week" else "custom-season"])
    # a day in the first week of the month, at local midnight (east of UTC that instant is still the previous UTC day/month)
    d0 = pd.Timestamp(year=2021, month=month, day=1, tz=zone)
    t = d0 + pd.Timedelta(days=(dow_offset - d0.dayofweek) % 7)
    df = pd.DataFrame({"temperature": [50.0], "observed": [1.0]}, index=pd.DatetimeIndex([t]))
    if carry:
        # frames handed out by the data classes (and earlier prediction frames) already carry calendar columns built from
        # the DEFAULT tables; the model must route by its own settings
        default = dm.DailyModel()
        df.insert(0, "season", [default.settings.season._num_dict[t.month]])
        df.insert(1, "day_of_week", [((t.dayofweek + 3) % 7) + 1])
    meter, _ = m._initialize_data(df)
    season = m.settings.season._num_dict[t.month]
    daytype = m.settings.weekday_weekend._num_dict[t.dayofweek + 1]
    pr = []
    if list(meter["season"]) != [season] or list(meter["day_of_week"]) != [t.dayofweek + 1]:
        pr.append(f"season/day columns {list(meter['season'])}/{list(meter['day_of_week'])} for {t}")
    short = {v: k for k, v in SEASON_NAME.items()}[season]
    dt_short = "wd" if daytype == "weekday" else "we"
    for combo in all_candidates():
        hits = [c for c in combo.split("__") if len(m._meter_segment(c, meter)) == 1]
        want = [c for c in combo.split("__") if short in c[3:].split("_") and c[:2] in ("fw", dt_short)]
        if len(hits) != 1 or hits != want:
            pr.append(f"{t.date()} ({season},{daytype}) in {combo}: selected by {hits}, expected {want}")
    return pr, str(t.date())


def replay_route(inp):
    pr, d = route_one(inp["arg"], inp["month"], inp["dow"], inp.get("carry", False), inp.get("zone", "US/Pacific"))
    return bool(pr), "; ".join(pr[:3])


def run_route(case, arg):
    case.inputs = []

    def run():
        month = F.choose("month", list(range(1, 13)))
        dow = F.choose("dow", list(range(7)))
        carry = F.choose("carry", [False, True])
        zone = F.choose("zone", ["US/Pacific", "Australia/Sydney"] + (["Asia/Kolkata", "UTC"] if case.tier == "thorough" else []))
        return month, dow, carry, zone, route_one(arg, month, dow, carry, zone)

    paths = case.explore(run)
    for p in paths:
        if p.outcome != "ret":
            case.rep["harness_errors"].append(f"route raised {p.value!r}")
            continue
        month, dow, carry, zone, (pr, d) = p.value
        case.prove(p, not pr, "every candidate split has exactly one component selecting the day: the one of its season and day type under the model's own settings",
                   replay=("route", (lambda a, b, c, z: lambda mdl: dict(arg=arg, month=a, dow=b, carry=c, zone=z))(month, dow, carry, zone)))
        case.regime("day in a zone east of UTC", zone != "US/Pacific")
        if len(case.rep["samples"]) < 2:
            case.sample(dict(settings=arg, date=d, candidates_checked=len(all_candidates())))


# ------------------------------------------------------------------ selection

def best_of(crit, combos):
    m = dm.DailyModel()
    m.combinations = list(combos)
    it = iter(crit)
    table = dict(zip(combos, crit))
    m._combination_selection_criteria = lambda c: table[c]
    return m._best_combination(print_out=False)


def replay_best(inp):
    combos = inp["combos"]
    crit = [float(inp["env"][f"crit{i}"]) for i in range(len(combos))]
    got = best_of(crit, combos)
    want = combos[int(np.argmin(crit))]  # first minimum
    return got != want, f"criteria {crit}: selected {got}, minimum (first on ties) is {want}"


REPLAY = {"combos": replay_combos, "route": replay_route, "best": replay_best}


# selection through the real _combination_selection_criteria / _get_error_metrics / selection_criteria on stand-in
# components; the SAME model object selects for a first and then for a second baseline
REFIT_DATA = {  # per component: (weighted SSE, N) ; "split pays": the weekday/weekend pair fits far better than the unsplit model
    "split pays": {"fw-su_sh_wi": (400.0, 100), "wd-su_sh_wi": (20.0, 70), "we-su_sh_wi": (10.0, 30)},
    "split does not pay": {"fw-su_sh_wi": (100.0, 100), "wd-su_sh_wi": (70.0, 70), "we-su_sh_wi": (30.0, 30)},
}


def _select(m, which):
    import types as _t
    comps = {}
    for name, (wsse, n) in REFIT_DATA[which].items():
        r = np.full(n, (wsse / n) ** 0.5)
        comps[name] = _t.SimpleNamespace(wSSE=wsse, N=n, resid=r, obs=np.full(n, 10.0) + np.arange(n) % 7, TSS=1000.0 * n / 100)
    m.fit_components = comps
    m.combinations = ["fw-su_sh_wi", "wd-su_sh_wi__we-su_sh_wi"]
    m.wRMSE_base = m._get_error_metrics("fw-su_sh_wi")[0]
    best = m._best_combination(print_out=False)
    return best, [float(m._combination_selection_criteria(c)) for c in m.combinations], float(m._get_error_metrics(best)[0])


def refit_selection(first, second):
    m = dm.DailyModel()
    _select(m, first)
    got = _select(m, second)
    want = _select(dm.DailyModel(), second)
    pr = []
    if got != want:
        pr.append(f"after selecting for '{first}', the same object selects {got[0]} (criteria {got[1]}, wRMSE {got[2]}) for '{second}'; an object that only saw '{second}' selects {want[0]} (criteria {want[1]}, wRMSE {want[2]})")
    crit = want[1]
    if want[0] != m.combinations[int(np.argmin(crit))]:
        pr.append(f"selected {want[0]} is not the lowest criterion {crit}")
    return pr


def replay_best_refit(inp):
    pr = refit_selection(inp["first"], inp["second"])
    return bool(pr), "; ".join(pr)


REPLAY["best-refit"] = replay_best_refit


def run_best_refit(case):
    case.inputs = []

    def run():
        first, second = F.choose("first", list(REFIT_DATA)), F.choose("second", list(REFIT_DATA))
        return first, second, refit_selection(first, second)

    paths = case.explore(run)
    for p in paths:
        if p.outcome != "ret":
            case.rep["harness_errors"].append(f"refit selection raised {p.value!r}")
            continue
        first, second, pr = p.value
        case.prove(p, not pr, "a model object that selected a split before selects, for a new baseline, the lowest-criterion candidate of the NEW components",
                   replay=("best-refit", (lambda a, b: lambda mdl: dict(first=a, second=b))(first, second)))
        case.regime("second selection on one model object with other components", first != second)
    case.sample(dict(entry="_best_combination / _combination_selection_criteria / _get_error_metrics", histories=len(paths)))


def run_best(case):
    K = 6 if case.tier == "thorough" else 4
    cands = all_candidates()
    for k in range(1, K + 1):
        combos = cands[:k]
        cz = [z3.Real(f"crit{i}") for i in range(k)]
        case.inputs = cz

        def run():
            return best_of([SReal(c) for c in cz], combos)

        paths = case.explore(run)
        for p in paths:
            rp = ("best", (lambda cs: lambda mdl: dict(combos=cs, env=model_env(mdl, cz)))(combos))
            if p.outcome != "ret":
                case.prove(p, False, "selection does not raise", replay=rp)
                continue
            i = combos.index(p.value) if p.value in combos else None
            if i is None:
                case.prove(p, False, "selected split is one of the candidates", replay=rp)
                continue
            cl = z3.And(*[cz[i] <= cz[j] for j in range(k)], *[cz[i] < cz[j] for j in range(i)])
            case.prove(p, cl, "selected split has the lowest criterion (first on ties)", replay=rp)
        r = case.reach("tie", [cz[0] == cz[-1]] if k > 1 else [z3.BoolVal(True)])
        case.regime("tie between candidates", r is not None and k > 1)
    case.sample(dict(candidates=cands[:K]))
