from __future__ import annotations

import argparse
import importlib
import json
import os
import sys

ROOT = os.path.dirname(os.path.dirname(os.path.abspath(__file__)))


def main(argv=None):
    import warnings
    warnings.simplefilter("ignore")
    ap = argparse.ArgumentParser(prog="vcheck")
    ap.add_argument("target", help="property id (C01..C20), 'replay', or 'selftest'")
    ap.add_argument("path", nargs="?")
    ap.add_argument("--tier", default=os.environ.get("VERIF_TIER", "quick"), choices=["quick", "thorough"])
    ap.add_argument("--seed", type=int, default=int(os.environ.get("VERIF_SEED", "0") or 0))
    ap.add_argument("--jobs", type=int, default=None)
    ap.add_argument("--only", action="append")
    a = ap.parse_args(argv)
    sys.path.insert(0, ROOT)
    if a.target == "replay":
        return replay(a.path)
    if a.target == "selftest":
        from selftest import run_all
        return run_all.main()
    if a.only and not os.environ.get("VERIF_OUT_DIR"):
        # a partial run (development aid) must not overwrite the evidence of the registered command
        os.environ["VERIF_OUT_DIR"] = os.path.join(ROOT, ".partial")
    from symv.driver import run_property
    return run_property(a.target.upper(), a.tier, a.seed, jobs=a.jobs, only=a.only)


def replay(path):
    import logging
    logging.disable(logging.CRITICAL)
    with open(path) as f:
        rec = json.load(f)
    mod = importlib.import_module(f"harness.{rec['property'].lower()}")
    bad, detail = mod.REPLAY[rec["kind"]](rec["inputs"])
    print(f"replay property={rec['property']} case={rec['case']} obligation={rec['label']}")
    print(f"inputs={json.dumps(rec['inputs'])[:2000]}")
    print(f"detail={detail}")
    if bad:
        print(f"VIOLATION property={rec['property']} replay={path}")
        return 1
    print("does not reproduce on the current tree")
    return 0


if __name__ == "__main__":
    sys.exit(main())
