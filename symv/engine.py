"""Path-exploring symbolic executor for ordinary Python callables.

The function under test is *executed* (not translated) on z3-backed proxy
objects (see proxies.py).  Every ``bool()`` of a symbolic Bool is a decision
point; ``Engine.explore`` re-executes the function depth first until every
feasible sequence of decisions has been visited.  Feasibility of a decision is
decided by z3 (`sat`/`unsat`); `unknown` is treated as *feasible* (sound
over-approximation of the path set) and counted.

Soundness guards (DESIGN.md 2.1):
  * decisions are re-played by position and the structural hash of the
    condition is compared; a different condition at the same position means
    the code under test is not a function of its symbolic inputs (state leak
    between paths) -> HarnessError.
  * control exceptions derive from BaseException and set a sticky flag, because
    the repository has bare ``except:`` clauses.
"""
from __future__ import annotations

import threading
import time
from dataclasses import dataclass, field
from typing import Any, Callable, List, Optional

import z3


class SymControl(BaseException):
    """Base of engine control-flow exceptions (never ``Exception``)."""


class PathAbort(SymControl):
    """Current path is infeasible / pruned by an assumption."""


class Unsupported(SymControl):
    """A proxy reached an operation the model does not cover (harness error)."""


class HarnessError(SymControl):
    """The machinery itself is inconsistent (never reported as a violation)."""


class PathLimit(SymControl):
    pass


@dataclass
class Path:
    pc: List[Any]
    outcome: str  # "ret" | "exc"
    value: Any
    decisions: int
    model: Any = None  # a z3 model of pc (None if unavailable)
    notes: dict = field(default_factory=dict)

    @property
    def nontrivial(self):
        return self.decisions > 0


class Stats:
    def __init__(self):
        self.queries = 0
        self.solver_s = 0.0
        self.unknown = 0
        self.paths = 0
        self.decisions = 0
        self.cache_hits = 0
        self.model_hits = 0
        self.slow = []

    def as_dict(self):
        return dict(queries=self.queries, solver_s=round(self.solver_s, 3), unknown_feasibility=self.unknown,
                    paths=self.paths, branch_decisions=self.decisions, atom_cache_hits=self.cache_hits,
                    model_cache_hits=self.model_hits)

    def merge(self, o: "Stats"):
        self.queries += o.queries
        self.solver_s += o.solver_s
        self.unknown += o.unknown
        self.paths += o.paths
        self.decisions += o.decisions
        self.cache_hits += o.cache_hits
        self.model_hits += o.model_hits


CUR: Optional["Engine"] = None  # the engine running the current path


def cur() -> "Engine":
    if CUR is None:
        raise HarnessError("symbolic value used outside Engine.explore")
    return CUR


AXIOM_HOOKS: List[Callable[[List[Any]], List[Any]]] = []  # formulas -> extra axioms (proxies registers exp/log)


def _axioms(forms):
    out = []
    for h in AXIOM_HOOKS:
        out.extend(h(forms))
    return out


import os as _os
_DEBUG = bool(_os.environ.get("VERIF_DEBUG"))
STAGES_OBLIGATION = (("default", 3000), ("qfnra-nlsat", 6000), ("qfnra", 45000), ("default", 30000))
STAGES_BRANCH = (("default", 2000), ("qfnra-nlsat", 4000), ("qfnra", 10000))


def _mk_solver(kind):
    if kind == "default":
        return z3.Solver()
    return z3.Tactic(kind).solver()


def solve(forms, timeout_ms=None, want_model=True, stats: Stats | None = None, seed=0, stages=STAGES_OBLIGATION):
    """Decide satisfiability of the conjunction of `forms` (+ instantiated axioms).

    Fresh solver per query (a re-used solver with assumptions falls into z3's
    incremental mode and answers `unknown` on trivial NRA).  A small portfolio is
    tried in sequence (default SMT core, nlsat, the qfnra portfolio tactic); any
    sat/unsat answer is final, `unknown` after all stages is inconclusive.
    Returns (verdict, model) with verdict in {"sat","unsat","unknown"}.
    """
    t0 = time.time()
    forms = list(forms)
    ax = _axioms(forms)
    if timeout_ms is not None:
        stages = (("default", timeout_ms), ("qfnra-nlsat", timeout_ms), ("qfnra", timeout_ms))
    r, m = "unknown", None
    for kind, tmo in stages:
        timer = None
        try:
            s = _mk_solver(kind)
            s.set("timeout", int(tmo))
            if seed and kind == "default":
                s.set("random_seed", int(seed))
            s.add(*forms)
            s.add(*ax)
            # watchdog: some tactics ignore the timeout parameter in preprocessing
            timer = threading.Timer(tmo / 1000.0 + 3.0, z3.main_ctx().interrupt)
            timer.daemon = True
            timer.start()
            if _DEBUG:
                open("/tmp/t/last_query.smt2", "w").write(f"; stage {kind} {tmo}\n" + s.to_smt2())
            r = str(s.check())
        except z3.Z3Exception:
            r = "unknown"
        finally:
            if timer is not None:
                timer.cancel()
        if r != "unknown":
            if r == "sat" and want_model:
                m = s.model()
            break
    dt = time.time() - t0
    if _DEBUG and dt > 1.0:
        print(f"[solve] {r} {dt:.1f}s {len(forms)} forms; last: {str(forms[-1])[:160]}", flush=True)
    if stats is not None:
        stats.queries += 1
        stats.solver_s += dt
        if r == "unknown":
            stats.unknown += 1
        if dt > 2.0 and len(stats.slow) < 20:
            stats.slow.append((round(dt, 2), r))
    return r, m


def _strip_not(c):
    neg = False
    while z3.is_not(c):
        c = c.arg(0)
        neg = not neg
    return c, neg


class Engine:
    def __init__(self, stages=STAGES_BRANCH, max_paths=200000, seed=0, assume=()):
        self.stages = stages
        self.max_paths = max_paths
        self.seed = seed
        self.stats = Stats()
        self.trace: list = []  # [value, alt_pending(bool), alt_model, cond_hash]
        self.pos = 0
        self.pc: list = []
        self.atoms: dict = {}
        self.model = None
        self.poisoned: Optional[BaseException] = None
        self.fresh_counter = 0
        self.base_assume = list(assume)
        self.path_notes: dict = {}
        self._exp_seen: set = set()

    # ------------------------------------------------------------------ utils
    def fresh(self, prefix="v", sort="real"):
        self.fresh_counter += 1
        nm = f"{prefix}!{self.fresh_counter}"
        return z3.Real(nm) if sort == "real" else (z3.Int(nm) if sort == "int" else z3.Bool(nm))

    def assume(self, cond):
        """Add a constraint to the current path (inputs' validity predicate).
        Must be called before the code it constrains."""
        cond = z3.simplify(cond) if not isinstance(cond, bool) else z3.BoolVal(cond)
        if z3.is_true(cond):
            return
        if z3.is_false(cond):
            raise self.poison(PathAbort("assumption false"))
        self.pc.append(cond)
        if self.model is not None:
            try:
                if not z3.is_true(self.model.eval(cond, model_completion=True)):
                    self.model = None
            except z3.Z3Exception:
                self.model = None

    def add_side(self, cond):
        """Definitional constraint on a fresh variable (sqrt etc)."""
        self.pc.append(cond)
        self.model = None

    def check(self, *extra, want_model=True):
        return solve(self.pc + list(extra), want_model=want_model, stats=self.stats, seed=self.seed,
                     stages=self.stages)

    # --------------------------------------------------------------- branching
    def branch(self, cond) -> bool:
        r = self._branch(cond)
        # the model of a flipped alternative becomes valid once the replayed prefix is consumed
        if self._start_model is not None and self.pos >= self._install_at:
            self.model = self._start_model
            self._start_model = None
        return r

    def _branch(self, cond) -> bool:
        if isinstance(cond, bool):
            return cond
        cond = z3.simplify(cond)
        if z3.is_true(cond):
            return True
        if z3.is_false(cond):
            return False
        atom, neg = _strip_not(cond)
        key = atom.get_id()
        hit = self.atoms.get(key)
        if hit is not None:
            self.stats.cache_hits += 1
            return hit[0] != neg
        h = atom.hash()
        if self.pos < len(self.trace):
            ent = self.trace[self.pos]
            if ent[3] != h:
                raise self.poison(HarnessError(
                    f"non-deterministic re-execution at decision {self.pos}: {atom.sexpr()[:200]}"))
            val = ent[0]
            self.pos += 1
            self._commit(atom, key, val)
            return val != neg
        # new decision on the atom
        known = None
        if self.model is not None and not self._new_uf_apps(atom):
            try:
                ev = self.model.eval(atom, model_completion=True)
                if z3.is_true(ev):
                    known = True
                elif z3.is_false(ev):
                    known = False
            except z3.Z3Exception:
                known = None
        if known is not None:
            self.stats.model_hits += 1
            r, m = self.check(z3.Not(atom) if known else atom)
            other_ok = r != "unsat"
            first = known
            alt_model = m
            keep_model = True
        else:
            rt, mt = self.check(atom)
            rf, mf = self.check(z3.Not(atom))
            if rt == "unsat" and rf == "unsat":
                raise self.poison(PathAbort("infeasible path"))
            if rt == "unsat":
                first, other_ok, alt_model = False, False, None
                self.model = mf
            elif rf == "unsat":
                first, other_ok, alt_model = True, False, None
                self.model = mt
            else:
                first, other_ok, alt_model = True, True, mf
                self.model = mt
            keep_model = True
        self.trace.append([first, other_ok, alt_model, h])
        self.pos += 1
        self.stats.decisions += 1
        self._commit(atom, key, first)
        return first != neg

    def _commit(self, atom, key, val):
        self.atoms[key] = (val, atom)  # keep atom alive so the id stays unique
        self.pc.append(atom if val else z3.Not(atom))

    def _new_uf_apps(self, e):
        """True if `e` contains an uninterpreted-function application not yet seen on this path
        (the cached model was not built with its axioms)."""
        new = False
        todo = [e]
        seen = set()
        while todo:
            t = todo.pop()
            i = t.get_id()
            if i in seen:
                continue
            seen.add(i)
            if z3.is_app(t):
                if t.decl().kind() == z3.Z3_OP_UNINTERPRETED and t.num_args() > 0:
                    if i not in self._exp_seen:
                        self._exp_seen.add(i)
                        new = True
                todo.extend(t.children())
        return new

    def poison(self, exc):
        self.poisoned = exc
        return exc

    # -------------------------------------------------------------- exploring
    def explore(self, fn: Callable[[], Any], expected_exc: tuple = ()) -> List[Path]:
        """Run fn() once per feasible path. `fn` must rebuild every object it uses.
        `expected_exc`: exception classes that are legitimate outcomes (anything
        else raised by the code under test is still returned as an "exc" outcome
        so that the harness can treat it as a crash candidate)."""
        global CUR
        paths: List[Path] = []
        self.trace = []
        first = True
        while True:
            if not first:
                # backtrack
                while self.trace and not self.trace[-1][1]:
                    self.trace.pop()
                if not self.trace:
                    break
                ent = self.trace[-1]
                ent[0] = not ent[0]
                ent[1] = False
                start_model = ent[2]
                ent[2] = None
            else:
                start_model = None
            first = False
            self.pos = 0
            self.pc = list(self.base_assume)
            self.atoms = {}
            self.model = None
            self.poisoned = None
            self.fresh_counter = 0
            self.path_notes = {}
            self._exp_seen = set()
            self._start_model = start_model
            prev = CUR
            CUR = self
            # the model of the flipped alternative becomes valid only after the
            # replayed prefix; install lazily
            self._install_at = len(self.trace)
            try:
                try:
                    out = self._run(fn)
                finally:
                    CUR = prev
            except PathAbort:
                if self.poisoned is not None and not isinstance(self.poisoned, PathAbort):
                    raise self.poisoned
                continue
            if self.poisoned is not None:
                # a control exception was raised and swallowed by the code under test
                raise HarnessError(f"control exception swallowed by code under test: {self.poisoned!r}")
            if self.pos < len(self.trace):
                raise HarnessError("re-execution consumed fewer decisions than recorded (non-deterministic code)")
            kind, val = out
            self.stats.paths += 1
            if _DEBUG and self.stats.paths % 20 == 0:
                print(f"[explore] paths={self.stats.paths} queries={self.stats.queries} solver_s={self.stats.solver_s:.1f}", flush=True)
            paths.append(Path(pc=list(self.pc), outcome=kind, value=val,
                              decisions=len(self.trace), model=None, notes=dict(self.path_notes)))
            if len(paths) > self.max_paths:
                raise HarnessError(f"path limit {self.max_paths} exceeded")
        return paths

    def _run(self, fn):
        try:
            return ("ret", fn())
        except SymControl:
            raise
        except Exception as e:  # outcome of the code under test
            if self.poisoned is not None:
                raise self.poisoned
            return ("exc", e)
