"""Second engine (DESIGN 2.10): CrossHair 0.0.110 on PEP-316 twins of pure-Python leaf functions of the repository.

A twin module is a small source text that imports the real functions from the tree under test and states the obligation
as a postcondition.  One `crosshair check --report_all` process per condition (CrossHair's timeout is sequential CPU per
condition).  Verdicts:
  confirmed   "Confirmed over all paths"  (symbolic execution finished every path within the budget)
  refuted     a counterexample call was printed; it is re-executed concretely here before it counts
  unknown     "Not confirmed" / "Unable to meet precondition" / timeout: inconclusive (secondary evidence only)
"""
from __future__ import annotations

import os
import re
import subprocess
import sys
import tempfile
import time
from concurrent.futures import ThreadPoolExecutor


def _line_of(src: str, fn: str) -> int:
    for i, l in enumerate(src.splitlines(), 1):
        if l.startswith(f"def {fn}("):
            return i + 1
    raise KeyError(fn)


def run_twins(src: str, fns: list[str], per_condition_timeout=25, modname="xh_twins"):
    """returns {fn: dict(verdict, call, raw, wall_s)}"""
    d = tempfile.mkdtemp(prefix="xhair_")
    path = os.path.join(d, modname + ".py")
    with open(path, "w") as f:
        f.write(src)
    env = dict(os.environ)
    env["PYTHONPATH"] = os.pathsep.join([p for p in sys.path if p]) # the tree under test is whatever this process imports

    def one(fn):
        t = time.time()
        cmd = [sys.executable, "-m", "crosshair", "check", "--report_all", "--per_condition_timeout", str(per_condition_timeout),
               f"{path}:{_line_of(src, fn)}"]
        try:
            out = subprocess.run(cmd, capture_output=True, text=True, timeout=per_condition_timeout * 3 + 60, env=env, cwd=d)
            raw = (out.stdout + out.stderr).strip()
        except subprocess.TimeoutExpired:
            raw = "timeout"
        verdict, call = "unknown", None
        if "Confirmed over all paths" in raw:
            verdict = "confirmed"
        else:
            m = re.search(r"error: .*? when calling (.*?)(?: \(which returns|$)", raw, re.S)
            if m:
                verdict, call = "refuted", m.group(1).strip()
        return fn, dict(verdict=verdict, call=call, raw=raw[-400:], wall_s=round(time.time() - t, 1))

    with ThreadPoolExecutor(max_workers=min(8, len(fns))) as ex:
        res = dict(ex.map(one, fns))
    try:
        import shutil
        shutil.rmtree(d)
    except Exception:
        pass
    return res


def concrete_check(src: str, call: str):
    """re-execute a counterexample call on the real code: returns (violated, detail).  Each twin `f` has a companion
    `f__post(result, *args)` giving the postcondition as ordinary Python."""
    ns: dict = {"__name__": "xh_replay"}
    exec(compile(src, "<twins>", "exec"), ns)
    fn = call.split("(", 1)[0].strip()
    args = eval("(lambda *a, **k: (a, k))" + call[len(fn):], dict(ns, nan=float("nan"), inf=float("inf")))
    res = ns[fn](*args[0], **args[1])
    ok = ns[fn + "__post"](res, *args[0], **args[1])
    return (not ok), f"{call} returns {res!r}"
