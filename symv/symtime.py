"""Symbolic time shim for get_baseline_data / get_reporting_data (C20 only).

pandas needs concrete labels to slice, so the *index itself* is symbolic here: a stand-in series whose labels are
z3 Ints (seconds, strictly increasing) implementing exactly the operations those two functions use.  The shim is
part of the claim and is validated on every explored path against the real functions on real pandas."""
from __future__ import annotations

import z3

from . import engine as E
from .proxies import NAN, SBool, SInt, SReal, is_nan

DAY = 86400
TMIN, TMAX = -10**12, 10**12  # stand-ins for pd.Timestamp.min / max (all data labels lie strictly inside)


class NaTType:
    def __sub__(self, o):
        return self

    __add__ = __rsub__ = __radd__ = __sub__

    def __lt__(self, o):
        return False

    __le__ = __gt__ = __ge__ = __lt__

    def __eq__(self, o):
        return False

    def __ne__(self, o):
        return True

    __hash__ = None

    def isoformat(self):
        return "NaT"

    def __repr__(self):
        return "NaT"


NAT = NaTType()


class STime:
    __slots__ = ("e",)

    def __init__(self, e):
        self.e = e if z3.is_expr(e) else z3.IntVal(int(e))

    def _cmp(self, o, f):
        if o is NAT:
            return False
        return SBool(f(self.e, o.e))

    def __lt__(self, o):
        return self._cmp(o, lambda a, b: a < b)

    def __le__(self, o):
        return self._cmp(o, lambda a, b: a <= b)

    def __gt__(self, o):
        return self._cmp(o, lambda a, b: a > b)

    def __ge__(self, o):
        return self._cmp(o, lambda a, b: a >= b)

    def __eq__(self, o):
        return self._cmp(o, lambda a, b: a == b)

    def __ne__(self, o):
        if o is NAT:
            return True
        return SBool(self.e != o.e)

    __hash__ = None

    def __sub__(self, o):
        if o is NAT:
            return NAT
        if isinstance(o, SDelta):
            return STime(self.e - o.e)
        return SDelta(self.e - o.e)

    def __add__(self, o):
        if o is NAT:
            return NAT
        return STime(self.e + o.e)

    def isoformat(self):
        return "<t>"

    def __repr__(self):
        return f"STime({z3.simplify(self.e)})"


class SDelta:
    __slots__ = ("e",)

    def __init__(self, e):
        self.e = e

    @property
    def days(self):
        """whole days, rounded towards minus infinity as datetime.timedelta/pd.Timedelta do (z3 integer division by a
        positive constant is the floor)"""
        return SInt(self.e / DAY)

    def total_seconds(self):
        return SInt(self.e)

    def _cmp(self, o, f):
        return SBool(f(self.e, o.e if isinstance(o, SDelta) else z3.IntVal(int(o.total_seconds()))))

    def __lt__(self, o):
        return self._cmp(o, lambda a, b: a < b)

    def __le__(self, o):
        return self._cmp(o, lambda a, b: a <= b)

    def __gt__(self, o):
        return self._cmp(o, lambda a, b: a > b)

    def __ge__(self, o):
        return self._cmp(o, lambda a, b: a >= b)


def timedelta(days=0):
    if isinstance(days, SReal):
        d = days.e
        if z3.is_real(d):
            d = z3.ToInt(d)
    else:
        d = z3.IntVal(int(days))
    return SDelta(d * DAY)


class SIndex:
    def __init__(self, ts, pos):
        self.ts = list(ts)
        self.pos = list(pos)

    def max(self):
        return self.ts[-1] if self.ts else NAT

    def min(self):
        return self.ts[0] if self.ts else NAT

    def __len__(self):
        return len(self.ts)

    def __getitem__(self, i):
        return self.ts[i]  # IndexError on empty, as pandas

    def get_indexer(self, targets, method=None):
        assert method == "nearest"
        t = targets[0]
        if not self.ts or t is NAT:
            return [-1]
        best = 0
        for i in range(1, len(self.ts)):
            di = z3.If(self.ts[i].e >= t.e, self.ts[i].e - t.e, t.e - self.ts[i].e)
            db = z3.If(self.ts[best].e >= t.e, self.ts[best].e - t.e, t.e - self.ts[best].e)
            if bool(SBool(di <= db)):  # ties go to the larger label (pandas: left only if strictly closer)
                best = i
        return [best]


class _ILoc:
    def __init__(self, s):
        self.s = s

    def __setitem__(self, i, v):
        if not self.s.vals:
            raise IndexError("iloc cannot enlarge its target object")
        self.s.vals[i] = v


class SSeries:
    """sorted series with symbolic labels; `pos` remembers the positions in the original input"""

    def __init__(self, ts, vals, pos=None):
        self.index = SIndex(ts, pos if pos is not None else range(len(ts)))
        self.vals = list(vals)

    def copy(self):
        return SSeries(self.index.ts, self.vals, self.index.pos)

    def __getitem__(self, sl):
        if not isinstance(sl, slice):
            raise TypeError("only label slices are modelled")
        lo, hi = sl.start, sl.stop
        if lo is NAT or hi is NAT:
            # NaT bounds only arise from an empty selection (index.max() of nothing); pandas returns the empty series
            if not self.index.ts:
                return SSeries([], [], [])
            raise E.Unsupported("NaT slice bound on a non-empty series is not modelled")
        keep = []
        for i, t in enumerate(self.index.ts):
            ok = True
            if lo is not None and not bool(t >= lo):
                ok = False
            if ok and hi is not None and not bool(t <= hi):
                ok = False
            if ok:
                keep.append(i)
        return SSeries([self.index.ts[i] for i in keep], [self.vals[i] for i in keep], [self.index.pos[i] for i in keep])

    def dropna(self):
        keep = [i for i, v in enumerate(self.vals) if not is_nan(v)]
        return SSeries([self.index.ts[i] for i in keep], [self.vals[i] for i in keep], [self.index.pos[i] for i in keep])

    @property
    def empty(self):
        return len(self.vals) == 0

    @property
    def iloc(self):
        return _ILoc(self)


class _UTC:
    def localize(self, x):
        return x


class FakePytz:
    UTC = _UTC()


class _TS:
    min = STime(TMIN)
    max = STime(TMAX)

    def __new__(cls, x):  # pd.Timestamp(instant): the same instant
        return x


class FakePd:
    Timestamp = _TS

    @staticmethod
    def DateOffset(days=0, **kw):  # wall-clock and elapsed days coincide in the shim's timezone-free model
        return timedelta(days=days)

    @staticmethod
    def Timedelta(days=0, **kw):
        return timedelta(days=days)


class FakeNp:
    nan = NAN


class W:
    """stand-in for EEMeterWarning (a validated pydantic model)"""

    def __init__(self, **kw):
        self.__dict__.update(kw)
