"""z3-backed proxy numbers that flow through ordinary Python / numpy / pandas code.

Floats are modelled as mathematical reals (float constants enter with their
exact rational value).  NaN/inf never live inside a proxy: an operation that
would produce them forks and returns the concrete Python float instead, so
NaN-ness of every value is concrete on a path.
"""
from __future__ import annotations

import math
import operator
from fractions import Fraction

import numpy as np
import z3

from . import engine as E
from .engine import Unsupported, PathAbort

NAN = float("nan")
INF = float("inf")

EXP = z3.Function("EXP", z3.RealSort(), z3.RealSort())
LN = z3.Function("LN", z3.RealSort(), z3.RealSort())


def _unsupported(msg):
    e = Unsupported(msg)
    if E.CUR is not None:
        E.CUR.poison(e)
    return e


def is_nan(x):
    return isinstance(x, (float, np.floating)) and x != x


def is_inf(x):
    return isinstance(x, (float, np.floating)) and (x == INF or x == -INF)


def is_sym(x):
    return isinstance(x, (SReal, SBool))


def rv(x) -> z3.ArithRef:
    """exact z3 value of a concrete finite number"""
    if isinstance(x, (bool, np.bool_)):
        return z3.IntVal(int(x))
    if isinstance(x, (int, np.integer)):
        return z3.IntVal(int(x))
    if isinstance(x, Fraction):
        return z3.RealVal(str(x))
    f = float(x)
    if f != f or f in (INF, -INF):
        raise _unsupported(f"non-finite constant {f} lifted into a real term")
    if f == int(f) and abs(f) < 1e15:
        return z3.RealVal(int(f))
    # a float constant enters as the shortest decimal that round-trips (what the programmer wrote: 1e-3 -> 1/1000),
    # not as its binary expansion: the binary rationals (denominators 2^59) make nlsat's algebraic-number
    # arithmetic blow up without changing what is modelled (floats are modelled as reals either way, DESIGN 2.7)
    return z3.RealVal(str(Fraction(repr(f))))


class _NI(Exception):
    pass


def lift(x) -> z3.ArithRef:
    if isinstance(x, SReal):
        return x.e
    if isinstance(x, SBool):
        return z3.If(x.e, z3.IntVal(1), z3.IntVal(0))
    if isinstance(x, (bool, np.bool_, int, float, np.integer, np.floating, Fraction)):
        return rv(x)
    raise _NI()


def to_real(e):
    return z3.ToReal(e) if z3.is_int(e) else e


def lb(o):
    if isinstance(o, SBool):
        return o.e
    if isinstance(o, (bool, np.bool_)):
        return z3.BoolVal(bool(o))
    if isinstance(o, (int, np.integer)) and o in (0, 1):
        return z3.BoolVal(bool(o))
    raise _NI()


def _g(f):
    def w(self, o):
        try:
            return f(self, o)
        except _NI:
            return NotImplemented
    w.__name__ = f.__name__
    return w


class SBool:
    __slots__ = ("e",)

    def __init__(self, e):
        self.e = e if z3.is_expr(e) else z3.BoolVal(bool(e))

    def __bool__(self):
        return E.cur().branch(self.e)

    @_g
    def __and__(self, o):
        return SBool(z3.And(self.e, lb(o)))

    @_g
    def __or__(self, o):
        return SBool(z3.Or(self.e, lb(o)))

    @_g
    def __xor__(self, o):
        return SBool(z3.Xor(self.e, lb(o)))

    __rand__ = __and__
    __ror__ = __or__
    __rxor__ = __xor__

    def __invert__(self):
        return SBool(z3.Not(self.e))

    @_g
    def __eq__(self, o):
        return SBool(self.e == lb(o))

    @_g
    def __ne__(self, o):
        return SBool(self.e != lb(o))

    __hash__ = None

    def as_int(self):
        return SInt(z3.If(self.e, z3.IntVal(1), z3.IntVal(0)))

    def __add__(self, o):
        return self.as_int() + o

    def __radd__(self, o):
        return o + self.as_int()

    def __mul__(self, o):
        return self.as_int() * o

    __rmul__ = __mul__

    def __repr__(self):
        return f"SBool({z3.simplify(self.e)})"

    def __format__(self, spec):
        return "<symbool>"


def _mk(e):
    return SInt(e) if z3.is_int(e) else SReal(e)


# ---- optional rounding-error model (standard model of floating point: fl(a op b) = (a op b)(1 + e), |e| <= u).
# When ROUNDING is set, every real-valued +,-,*,/ result is multiplied by (1 + e_k) with a fresh e_k bounded by u.
# This over-approximates IEEE-754 double arithmetic (u = 2^-53) in real arithmetic.
ROUNDING = None


class rounding_model:
    def __init__(self, u=2.0 ** -53):
        self.u = u

    def __enter__(self):
        global ROUNDING
        self.old = ROUNDING
        ROUNDING = self.u

    def __exit__(self, *a):
        global ROUNDING
        ROUNDING = self.old


def _rnd(e):
    """result of a float operation under the rounding-error model"""
    if ROUNDING is None or z3.is_int(e):
        return _mk(e)
    es = z3.simplify(e)
    if z3.is_rational_value(es) or z3.is_int_value(es):
        return _mk(e)
    eng = E.cur()
    err = eng.fresh("rnd")
    u = z3.RealVal(str(Fraction(ROUNDING)))
    eng.add_side(z3.And(err >= -u, err <= u))
    return SReal(e * (1 + err))


def _nonfinite_binop(a, b, op):
    """`a` symbolic finite, `b` concrete nan/inf (or swapped, flagged by op name)."""
    raise NotImplementedError


class SReal:
    """finite real number (z3 Real or Int sorted term)."""
    __slots__ = ("e",)
    div_by_zero = "numpy"  # "numpy": x/0 -> inf/nan ; "python": ZeroDivisionError

    def __init__(self, e):
        self.e = e

    def __bool__(self):
        # truthiness of a number is `x != 0` (np.count_nonzero, `if x:`); without this Python would answer True silently
        return E.cur().branch(self.e != 0)

    # -- arithmetic ---------------------------------------------------------
    def _nf(self, o):
        return isinstance(o, (float, np.floating)) and (o != o or o in (INF, -INF))

    @_g
    def __add__(self, o):
        if self._nf(o):
            return float(o)
        if isinstance(o, (int, float)) and not isinstance(o, bool) and o == 0:
            return self
        return _rnd(self.e + lift(o))

    __radd__ = __add__

    @_g
    def __sub__(self, o):
        if self._nf(o):
            return -float(o)
        return _rnd(self.e - lift(o))

    @_g
    def __rsub__(self, o):
        if self._nf(o):
            return float(o)
        return _rnd(lift(o) - self.e)

    @_g
    def __mul__(self, o):
        if self._nf(o):
            if o != o:
                return NAN
            if E.cur().branch(self.e == 0):
                return NAN
            return float(o) if E.cur().branch(self.e > 0) else -float(o)
        if isinstance(o, (int, float)) and not isinstance(o, bool) and o in (1, -1, 0):
            return _mk(self.e * lift(o))  # exact in floating point
        return _rnd(self.e * lift(o))

    __rmul__ = __mul__

    def _div(self, num, den, num_c=None):
        # num, den: z3 terms
        den_s = z3.simplify(den)
        if z3.is_int_value(den_s):
            if den_s.as_long() != 0:
                return _rnd(to_real(num) / to_real(den_s))
        elif z3.is_rational_value(den_s):
            if den_s.numerator_as_long() != 0:
                return _rnd(to_real(num) / den_s)
        if E.cur().branch(den == 0):
            if SReal.div_by_zero == "python":
                raise ZeroDivisionError("float division by zero")
            if E.cur().branch(num == 0):
                return NAN
            return INF if E.cur().branch(num > 0) else -INF
        return _rnd(to_real(num) / to_real(den))

    @_g
    def __truediv__(self, o):
        if self._nf(o):
            return NAN if o != o else SReal(z3.RealVal(0))
        return self._div(self.e, lift(o))

    @_g
    def __rtruediv__(self, o):
        if self._nf(o):
            if o != o:
                return NAN
            if E.cur().branch(self.e == 0):
                return float(o)  # inf/0 = inf (sign of +0)
            return float(o) if E.cur().branch(self.e > 0) else -float(o)
        return self._div(lift(o), self.e)

    def __neg__(self):
        return _mk(-self.e)

    def __pos__(self):
        return self

    def __abs__(self):
        return _mk(z3.If(self.e >= 0, self.e, -self.e))

    def __pow__(self, p):
        if isinstance(p, SReal):
            raise _unsupported("symbolic exponent")
        if p == 2:
            return _mk(self.e * self.e)
        if p == 1:
            return self
        if p == 0.5:
            return self.sqrt()
        if isinstance(p, (int, np.integer)) and 0 <= p <= 6:
            r = z3.RealVal(1)
            for _ in range(int(p)):
                r = r * self.e
            return _mk(r)
        if p == -1:
            return 1.0 / self
        raise _unsupported(f"power {p}")

    def __rpow__(self, b):
        raise _unsupported("symbolic exponent")

    def sqrt(self):
        eng = E.cur()
        if eng.branch(self.e < 0):
            return NAN
        s = eng.fresh("sqrt")
        eng.add_side(z3.And(s >= 0, s * s == to_real(self.e)))
        return SReal(s)

    def exp(self):
        return SReal(EXP(to_real(self.e)))

    def log(self):
        eng = E.cur()
        if eng.branch(self.e <= 0):
            if eng.branch(self.e == 0):
                return -INF
            return NAN
        return SReal(LN(to_real(self.e)))

    # numpy calls these on object arrays
    def conjugate(self):
        return self

    def square(self):
        return self * self

    # -- comparisons --------------------------------------------------------
    def _cmp(self, o, op):
        if isinstance(o, (float, np.floating)):
            if o != o:
                return op is operator.ne
            if o == INF:
                return op in (operator.lt, operator.le, operator.ne)
            if o == -INF:
                return op in (operator.gt, operator.ge, operator.ne)
        if o is None:
            if op is operator.eq:
                return False
            if op is operator.ne:
                return True
            raise TypeError("'<' not supported between symbolic real and NoneType")
        if isinstance(o, str):
            if op is operator.eq:
                return False
            if op is operator.ne:
                return True
            raise TypeError("cannot order symbolic real and str")
        return SBool(op(self.e, lift(o)))

    @_g
    def __lt__(self, o):
        return self._cmp(o, operator.lt)

    @_g
    def __le__(self, o):
        return self._cmp(o, operator.le)

    @_g
    def __gt__(self, o):
        return self._cmp(o, operator.gt)

    @_g
    def __ge__(self, o):
        return self._cmp(o, operator.ge)

    @_g
    def __eq__(self, o):
        return self._cmp(o, operator.eq)

    @_g
    def __ne__(self, o):
        return self._cmp(o, operator.ne)

    __hash__ = None

    # -- conversions --------------------------------------------------------
    def __float__(self):
        e = z3.simplify(self.e)
        if z3.is_int_value(e):
            return float(e.as_long())
        if z3.is_rational_value(e):
            return float(Fraction(e.numerator_as_long(), e.denominator_as_long()))
        raise _unsupported(f"symbolic real concretised by float(): {str(e)[:120]}")

    def __int__(self):
        raise _unsupported("symbolic real concretised by int()")

    def __round__(self, n=None):
        raise _unsupported("round() of symbolic real")

    def __floor__(self):
        return SInt(z3.ToInt(to_real(self.e)))

    def __ceil__(self):
        return SInt(-z3.ToInt(-to_real(self.e)))

    def __repr__(self):
        return f"S({str(z3.simplify(self.e))[:80]})"

    __str__ = __repr__

    def __format__(self, spec):
        return "<sym>"

    def item(self):
        return self

    @property
    def real(self):
        return self

    @property
    def imag(self):
        return 0.0



class SInt(SReal):
    """integer-valued term (z3 Int)."""
    __slots__ = ()

    def __floordiv__(self, o):
        if isinstance(o, (int, np.integer)) and o > 0:
            return SInt(self.e / z3.IntVal(int(o)))  # z3 int div == floor for positive divisor
        raise _unsupported("floor division by non-constant")

    def __mod__(self, o):
        if isinstance(o, (int, np.integer)) and o > 0:
            return SInt(self.e % z3.IntVal(int(o)))
        raise _unsupported("mod by non-constant")

    def __index__(self):
        return self.enumerate()

    def __int__(self):
        return self.enumerate()

    def enumerate(self):
        """all-SAT concretisation: fork on every value the solver admits."""
        eng = E.cur()
        while True:
            if eng.model is not None:
                v = eng.model.eval(self.e, model_completion=True)
            else:
                r, m = eng.check()
                if r == "unsat":
                    raise eng.poison(PathAbort("no more values"))
                if m is None:
                    raise _unsupported("cannot enumerate integer: solver unknown")
                eng.model = m
                v = m.eval(self.e, model_completion=True)
            val = v.as_long()
            if eng.branch(self.e == val):
                return val


def real(name):
    return SReal(z3.Real(name))


def integer(name):
    return SInt(z3.Int(name))


def boolean(name):
    return SBool(z3.Bool(name))


def const(x):
    return _mk(rv(x))


def ite(c, a, b):
    """symbolic if-then-else without forking (a, b finite numbers)."""
    if isinstance(c, (bool, np.bool_)):
        return a if c else b
    ea, eb = lift(a), lift(b)
    if z3.is_int(ea) != z3.is_int(eb):
        ea, eb = to_real(ea), to_real(eb)
    return _mk(z3.If(c.e, ea, eb))


def smax(a, b):
    return ite(_ge(a, b), a, b)


def smin(a, b):
    return ite(_ge(a, b), b, a)


def _ge(a, b):
    r = a >= b
    return r


def sabs(a):
    return abs(a)


# --------------------------------------------------------------------- axioms

def _collect_uf(forms, decl_names=("EXP", "LN")):
    found = {"EXP": {}, "LN": {}}
    seen = set()
    todo = list(forms)
    while todo:
        t = todo.pop()
        i = t.get_id()
        if i in seen:
            continue
        seen.add(i)
        if z3.is_app(t):
            d = t.decl()
            if d.kind() == z3.Z3_OP_UNINTERPRETED and t.num_args() == 1 and d.name() in found:
                found[d.name()][t.arg(0).get_id()] = t.arg(0)
            todo.extend(t.children())
        elif z3.is_quantifier(t):
            todo.append(t.body())
    return found


def exp_axioms(forms):
    f = _collect_uf(forms)
    out = []
    args = list(f["EXP"].values())
    for a in args:
        ea = EXP(a)
        out += [ea > 0, z3.Implies(a <= 0, ea <= 1), z3.Implies(a >= 0, ea >= 1),
                z3.Implies(a == 0, ea == 1), ea >= 1 + a,
                z3.Implies(a < 0, ea < 1), z3.Implies(a > 0, ea > 1 + a),
                z3.Implies(a < 1, ea * (1 - a) <= 1)]
    for i in range(len(args)):
        for j in range(i + 1, len(args)):
            a, b = args[i], args[j]
            ea, eb = EXP(a), EXP(b)
            out += [z3.Implies(a == b, ea == eb),
                    z3.Implies(a < b, z3.And(ea < eb, ea * (b - a) <= eb - ea, eb - ea <= eb * (b - a))),
                    z3.Implies(b < a, z3.And(eb < ea, eb * (a - b) <= ea - eb, ea - eb <= ea * (a - b)))]
    largs = list(f["LN"].values())
    for a in largs:
        la = LN(a)
        out += [z3.Implies(a == 1, la == 0), z3.Implies(a > 1, la > 0), z3.Implies(z3.And(a > 0, a < 1), la < 0),
                z3.Implies(a > 0, la <= a - 1)]
    for i in range(len(largs)):
        for j in range(i + 1, len(largs)):
            a, b = largs[i], largs[j]
            out += [z3.Implies(z3.And(a > 0, a == b), LN(a) == LN(b)),
                    z3.Implies(z3.And(a > 0, a < b), LN(a) < LN(b)),
                    z3.Implies(z3.And(b > 0, b < a), LN(b) < LN(a))]
    return out


if exp_axioms not in E.AXIOM_HOOKS:
    E.AXIOM_HOOKS.append(exp_axioms)


# ------------------------------------------------------------ model evaluation

def mval(model, x, as_float=True):
    """value of a (possibly symbolic) scalar under a z3 model"""
    if isinstance(x, SBool):
        v = model.eval(x.e, model_completion=True)
        return bool(z3.is_true(v))
    if isinstance(x, SReal):
        v = model.eval(x.e, model_completion=True)
        return zval(v, as_float)
    if isinstance(x, (np.floating,)):
        return float(x)
    if isinstance(x, (np.integer,)):
        return int(x)
    if isinstance(x, np.bool_):
        return bool(x)
    return x


def zval(v, as_float=True):
    v = z3.simplify(v)
    if z3.is_int_value(v):
        return v.as_long()
    if z3.is_rational_value(v):
        fr = Fraction(v.numerator_as_long(), v.denominator_as_long())
        return float(fr) if as_float else fr
    if z3.is_algebraic_value(v):
        a = v.approx(30)
        fr = Fraction(a.numerator_as_long(), a.denominator_as_long())
        return float(fr) if as_float else fr
    if z3.is_true(v):
        return True
    if z3.is_false(v):
        return False
    # EXP(..) applications etc. under a model: evaluate numerically when possible
    if z3.is_app(v) and v.decl().name() == "EXP":
        return math.exp(zval(v.arg(0)))
    raise ValueError(f"cannot evaluate {v}")


def mvals(model, xs, as_float=True):
    if isinstance(xs, dict):
        return {k: mvals(model, v, as_float) for k, v in xs.items()}
    if isinstance(xs, (list, tuple)):
        return [mvals(model, v, as_float) for v in xs]
    if isinstance(xs, np.ndarray):
        return [mvals(model, v, as_float) for v in xs.tolist()]
    return mval(model, xs, as_float)


# ------------------------------------------------ numeric evaluation of terms

def numeval(e, env, _memo=None):
    """Evaluate a z3 term numerically in float64 given env: {var name -> float/bool}.
    EXP/LN are evaluated with math.exp/log (so this is *not* the model's interpretation)."""
    if _memo is None:
        _memo = {}
    i = e.get_id()
    if i in _memo:
        return _memo[i]
    r = _numeval(e, env, _memo)
    _memo[i] = r
    return r


def _numeval(e, env, memo):
    if z3.is_int_value(e):
        return e.as_long()
    if z3.is_rational_value(e):
        return float(Fraction(e.numerator_as_long(), e.denominator_as_long()))
    if z3.is_true(e):
        return True
    if z3.is_false(e):
        return False
    if not z3.is_app(e):
        raise ValueError(f"numeval: {e}")
    d = e.decl()
    k = d.kind()
    if k == z3.Z3_OP_UNINTERPRETED:
        if e.num_args() == 0:
            return env[d.name()]
        a = numeval(e.arg(0), env, memo)
        if d.name() == "EXP":
            try:
                return math.exp(a)
            except OverflowError:
                return INF
        if d.name() == "LN":
            return math.log(a)
        raise ValueError(d.name())
    ch = [numeval(c, env, memo) for c in e.children()] if k != z3.Z3_OP_ITE else None
    if k == z3.Z3_OP_ADD:
        return sum(ch)
    if k == z3.Z3_OP_MUL:
        r = 1
        for c in ch:
            r = r * c
        return r
    if k == z3.Z3_OP_SUB:
        r = ch[0]
        for c in ch[1:]:
            r = r - c
        return r
    if k == z3.Z3_OP_UMINUS:
        return -ch[0]
    if k == z3.Z3_OP_DIV:
        if ch[1] == 0:
            return NAN
        return ch[0] / ch[1]
    if k == z3.Z3_OP_IDIV:
        return ch[0] // ch[1]
    if k == z3.Z3_OP_MOD:
        return ch[0] % ch[1]
    if k == z3.Z3_OP_TO_REAL:
        return float(ch[0])
    if k == z3.Z3_OP_TO_INT:
        return math.floor(ch[0])
    if k == z3.Z3_OP_POWER:
        return ch[0] ** ch[1]
    if k == z3.Z3_OP_ITE:
        c = numeval(e.arg(0), env, memo)
        return numeval(e.arg(1) if c else e.arg(2), env, memo)
    if k == z3.Z3_OP_LE:
        return ch[0] <= ch[1]
    if k == z3.Z3_OP_LT:
        return ch[0] < ch[1]
    if k == z3.Z3_OP_GE:
        return ch[0] >= ch[1]
    if k == z3.Z3_OP_GT:
        return ch[0] > ch[1]
    if k == z3.Z3_OP_EQ:
        return ch[0] == ch[1]
    if k == z3.Z3_OP_DISTINCT:
        return len(set(ch)) == len(ch)
    if k == z3.Z3_OP_AND:
        return all(ch)
    if k == z3.Z3_OP_OR:
        return any(ch)
    if k == z3.Z3_OP_NOT:
        return not ch[0]
    if k == z3.Z3_OP_IMPLIES:
        return (not ch[0]) or ch[1]
    if k == z3.Z3_OP_XOR:
        return ch[0] != ch[1]
    raise ValueError(f"numeval: unsupported op {d.name()}")


def model_env(model, variables):
    """{name: float} for a list of z3 constants under `model` (model completion)."""
    env = {}
    for v in variables:
        val = model.eval(v, model_completion=True)
        env[v.decl().name()] = zval(val)
    return env
