"""pandas ExtensionArray carrying symbolic reals.

Structure (index alignment, dropna, join, concat, resample, groupby, boolean indexing,
copy-on-write ...) is executed by pandas itself; only element arithmetic, comparisons,
reductions and take/concat/copy/isna are ours.  NaN-ness of a cell is concrete on a
path (a symbolic cell is never NaN; a NaN cell is the Python float nan)."""
from __future__ import annotations

import operator

import numpy as np
import pandas as pd
from pandas.api.extensions import ExtensionArray, ExtensionDtype, register_extension_dtype, take

from .proxies import SReal, SBool, SInt, NAN, is_nan, ite, lift
from .carriers import SymND, _max1, _min1

NA = NAN


def _isna(v):
    return v is None or (isinstance(v, (float, np.floating)) and v != v) or v is pd.NA or v is pd.NaT


@register_extension_dtype
class SymDtype(ExtensionDtype):
    name = "symreal"
    type = object
    kind = "O"
    na_value = NA
    _is_numeric = True
    _can_hold_na = True

    @classmethod
    def construct_array_type(cls):
        return SymArray

    @property
    def _is_boolean(self):
        return False

    def _get_common_dtype(self, dtypes):
        # float/int/symreal -> symreal (concat of a float column with a symbolic one stays symbolic)
        for d in dtypes:
            if isinstance(d, SymDtype):
                continue
            if isinstance(d, np.dtype) and d.kind in "fiub":
                continue
            return None
        return self


class SymArray(ExtensionArray):
    _dtype = SymDtype()
    __array_priority__ = 2000
    _typ = "extension"

    def __init__(self, data, copy=False):
        if isinstance(data, SymArray):
            data = data._d
        n = len(data)
        arr = np.empty(n, dtype=object)
        for i, v in enumerate(data):
            if _isna(v):
                arr[i] = NA
            elif isinstance(v, (SReal,)):
                arr[i] = v
            elif isinstance(v, SBool):
                arr[i] = v.as_int()
            elif isinstance(v, (bool, np.bool_)):
                arr[i] = float(v)
            elif isinstance(v, (int, float, np.integer, np.floating)):
                arr[i] = float(v)
            else:
                raise TypeError(f"SymArray cannot hold {type(v).__name__}: {v!r}")
        self._d = arr

    # ------------------------------------------------------------ construction
    @classmethod
    def _from_sequence(cls, scalars, *, dtype=None, copy=False):
        return cls(list(scalars))

    @classmethod
    def _from_factorized(cls, values, original):
        return cls(values)

    @classmethod
    def _concat_same_type(cls, to_concat):
        return cls(np.concatenate([x._d for x in to_concat]))

    @classmethod
    def _from_scalars(cls, scalars, *, dtype):
        return cls(list(scalars))

    # ---------------------------------------------------------------- basics
    def __getitem__(self, item):
        if isinstance(item, (int, np.integer)):
            return self._d[item]
        item = pd.api.indexers.check_array_indexer(self, item)
        return type(self)(self._d[item])

    def __setitem__(self, key, value):
        key = pd.api.indexers.check_array_indexer(self, key)
        if isinstance(value, SymArray):
            value = value._d
        elif isinstance(value, (list, np.ndarray, pd.Series)):
            value = SymArray(list(value))._d
        elif _isna(value):
            value = NA
        elif isinstance(value, (int, float, np.integer, np.floating)) and not isinstance(value, bool):
            value = float(value)
        self._d[key] = value

    def __len__(self):
        return len(self._d)

    def __iter__(self):
        return iter(self._d)

    @property
    def dtype(self):
        return self._dtype

    @property
    def nbytes(self):
        return 8 * len(self._d)

    def isna(self):
        return np.array([_isna(v) for v in self._d], dtype=bool)

    def take(self, indices, allow_fill=False, fill_value=None):
        if allow_fill and (fill_value is None or _isna(fill_value)):
            fill_value = NA
        res = take(self._d, indices, allow_fill=allow_fill, fill_value=fill_value)
        return type(self)(res)

    def copy(self):
        return type(self)(self._d.copy())

    def astype(self, dtype, copy=True):
        if isinstance(dtype, SymDtype) or dtype == "symreal":
            return self.copy() if copy else self
        if isinstance(dtype, ExtensionDtype):
            return super().astype(dtype, copy=copy)
        dt = np.dtype(dtype)
        if dt.kind in "fO":
            return self._d.copy().view(SymND)
        return super().astype(dtype, copy=copy)

    def to_numpy(self, dtype=None, copy=False, na_value=None):
        return self._d.copy().view(SymND)

    def __array__(self, dtype=None, copy=None):
        return self._d.copy()

    def any(self, *a, **k):
        """ndarray semantics: truth of each cell (NaN is true); a symbolic cell's truth is a branch"""
        for v in self._d:
            if (True if _isna(v) else bool(v != 0)):
                return True
        return False

    def all(self, *a, **k):
        for v in self._d:
            if not (True if _isna(v) else bool(v != 0)):
                return False
        return True

    def reshape(self, *shape):
        """`series.values.reshape(-1, 1)` (sklearn idiom): leaves pandas, continues as an object ndarray of cells"""
        return self.to_numpy().reshape(*shape)

    def _values_for_argsort(self):
        raise NotImplementedError("argsort on symbolic values")

    def _values_for_factorize(self):
        raise NotImplementedError("factorize on symbolic values")

    def _formatter(self, boxed=False):
        return lambda x: "nan" if _isna(x) else "<sym>"

    def __eq__(self, other):
        return self._binop(other, operator.eq, cmp=True)

    def _pad_or_backfill(self, *, method, limit=None, limit_area=None, copy=True):
        d = self._d.copy()
        n = len(d)
        if method in ("pad", "ffill"):
            last = NA
            for i in range(n):
                if _isna(d[i]):
                    d[i] = last
                else:
                    last = d[i]
        else:
            last = NA
            for i in range(n - 1, -1, -1):
                if _isna(d[i]):
                    d[i] = last
                else:
                    last = d[i]
        return type(self)(d)

    def fillna(self, value=None, limit=None, copy=True, **kw):
        d = self._d.copy()
        for i in range(len(d)):
            if _isna(d[i]):
                d[i] = value[i] if isinstance(value, (np.ndarray, SymArray, list)) else value
        return type(self)(d)

    # ------------------------------------------------------------- reductions
    def _reduce(self, name, *, skipna=True, keepdims=False, min_count=0, **kwargs):
        vals = [v for v in self._d if not _isna(v)]
        has_na = len(vals) != len(self._d)
        r = self._reduce1(name, vals, has_na and not skipna, min_count, **kwargs)
        if isinstance(r, float):
            r = np.float64(r)  # numpy scalar semantics (x/0 -> inf/nan, no ZeroDivisionError) as in the real code
        if keepdims:
            return type(self)([r])
        return r

    def _reduce1(self, name, vals, poison, min_count=0, ddof=1, **kw):
        if poison:
            return NA
        if name == "sum":
            if len(vals) < min_count:
                return NA
            r = 0.0
            for v in vals:
                r = r + v
            return r
        if name == "count":
            return len(vals)
        if name == "mean":
            if not vals:
                return NA
            r = vals[0]
            for v in vals[1:]:
                r = r + v
            return r / len(vals)
        if name in ("min", "max"):
            if not vals:
                return NA
            r = vals[0]
            for v in vals[1:]:
                r = _min1(r, v) if name == "min" else _max1(r, v)
            return r
        if name in ("var", "std"):
            n = len(vals)
            if n - ddof <= 0:
                return NA
            m = self._reduce1("mean", vals, False)
            s = 0.0
            for v in vals:
                s = s + (v - m) * (v - m)
            var = s / (n - ddof)
            if name == "var":
                return var
            return var.sqrt() if isinstance(var, SReal) else float(np.sqrt(var))
        if name == "median":
            from .carriers import symnp
            if not vals:
                return NA
            return symnp.quantile(vals, 0.5)
        if name == "prod":
            r = 1.0
            for v in vals:
                r = r * v
            return r
        if name in ("any", "all"):
            raise NotImplementedError(name)
        raise NotImplementedError(f"reduction {name}")

    def _accumulate(self, name, *, skipna=True, **kwargs):
        if name != "cumsum":
            raise NotImplementedError(name)
        out = np.empty(len(self), dtype=object)
        acc = 0.0
        for i, v in enumerate(self._d):
            if _isna(v):
                out[i] = NA
                if not skipna:
                    acc = NA
            else:
                acc = acc + v
                out[i] = acc
        return type(self)(out)

    # ----------------------------------------------------------------- ops
    def _binop(self, other, op, cmp=False):
        if isinstance(other, (pd.Series, pd.DataFrame, pd.Index)):
            return NotImplemented
        n = len(self)
        if isinstance(other, SymArray):
            o = other._d
        elif isinstance(other, (np.ndarray, list)):
            o = np.asarray(other, dtype=object)
            if o.ndim == 0:
                o = [o.item()] * n
        else:
            o = [other] * n
        if len(o) != n:
            raise ValueError("length mismatch")
        out = np.empty(n, dtype=object)
        for i in range(n):
            a, b = self._d[i], o[i]
            if _isna(a) or _isna(b):
                out[i] = (op is operator.ne) if cmp else NA
            else:
                out[i] = op(a, b)
        if cmp:
            # comparisons are decided now (fork): pandas needs a concrete boolean mask
            return np.array([bool(x) for x in out], dtype=bool)
        return SymArray(out)

    def __array_ufunc__(self, ufunc, method, *inputs, **kwargs):
        if method != "__call__":
            return NotImplemented
        if any(isinstance(x, (pd.Series, pd.DataFrame, pd.Index)) for x in inputs):
            return NotImplemented
        def _fin():
            return np.array([(not _isna(v)) and (isinstance(v, SReal) or bool(np.isfinite(v))) for v in self._d], dtype=bool)
        un = {np.isfinite: _fin, np.isnan: lambda: self.isna()}
        if ufunc in un and len(inputs) == 1:
            return un[ufunc]()
        el = {
            np.absolute: lambda v: abs(v),
            np.square: lambda v: v * v,
            np.negative: lambda v: -v,
            np.sqrt: lambda v: v.sqrt() if isinstance(v, SReal) else (float(np.sqrt(v)) if v >= 0 else NA),
            np.exp: lambda v: v.exp() if isinstance(v, SReal) else float(np.exp(v)),
            np.log: lambda v: v.log() if isinstance(v, SReal) else float(np.log(v)),
        }
        if ufunc in el and len(inputs) == 1:
            return SymArray([v if _isna(v) else el[ufunc](v) for v in self._d])
        bi = {np.add: operator.add, np.subtract: operator.sub, np.multiply: operator.mul, np.true_divide: operator.truediv,
              np.maximum: _max1, np.minimum: _min1}
        if ufunc in bi and len(inputs) == 2:
            a, b = inputs
            if a is self:
                return self._binop(b, bi[ufunc])
            return self._binop(a, lambda x, y: bi[ufunc](y, x))
        cm = {np.less: operator.lt, np.less_equal: operator.le, np.greater: operator.gt, np.greater_equal: operator.ge,
              np.equal: operator.eq, np.not_equal: operator.ne}
        if ufunc in cm and len(inputs) == 2:
            a, b = inputs
            if a is self:
                return self._binop(b, cm[ufunc], cmp=True)
            return self._binop(a, lambda x, y: cm[ufunc](y, x), cmp=True)
        return NotImplemented


def _mk(op, cmp=False, rev=False):
    def f(self, other):
        if rev:
            return self._binop(other, lambda a, b: op(b, a), cmp)
        return self._binop(other, op, cmp)
    return f


for _nm, _op in [("add", operator.add), ("sub", operator.sub), ("mul", operator.mul), ("truediv", operator.truediv)]:
    setattr(SymArray, f"__{_nm}__", _mk(_op))
    setattr(SymArray, f"__r{_nm}__", _mk(_op, rev=True))
for _nm, _op in [("lt", operator.lt), ("le", operator.le), ("gt", operator.gt), ("ge", operator.ge), ("ne", operator.ne)]:
    setattr(SymArray, f"__{_nm}__", _mk(_op, cmp=True))
SymArray.__pow__ = _mk(operator.pow)
SymArray.__neg__ = lambda self: SymArray([v if _isna(v) else -v for v in self._d])
SymArray.__abs__ = lambda self: SymArray([v if _isna(v) else abs(v) for v in self._d])
SymArray.__pos__ = lambda self: self


def symseries(vals, index, name=None):
    return pd.Series(SymArray(list(vals)), index=index, name=name)


def cells(s):
    """list of raw cells (proxy / float / nan) of a Series or array, whatever its dtype"""
    if isinstance(s, pd.Series):
        a = s.array
        if isinstance(a, SymArray):
            return list(a._d)
        return [x for x in s.to_numpy(dtype=object)]
    if isinstance(s, SymArray):
        return list(s._d)
    return list(s)


# ---------------------------------------------------------------------------------------------------------------
# pandas' group-wise sum of a custom ExtensionArray runs through its Python fallback (`alt=np.sum`), which silently drops
# `min_count` (an all-missing group sums to 0.0 instead of NaN); float columns take the cython path, which honours it.
# The repository relies on it (`predictions.sum(axis=1, min_count=1)`, `resample(...).sum(min_count=1)`), so for symreal
# data the group-wise sum is routed through SymArray._reduce, which implements min_count.  Validated in selftest against
# float frames.
def _install_groupby_sum_min_count():
    from pandas.core.groupby.groupby import GroupBy
    if getattr(GroupBy.sum, "_symv", False):
        return
    orig = GroupBy.sum

    def _is_sym(obj):
        if isinstance(obj, pd.Series):
            return isinstance(obj.dtype, SymDtype)
        return any(isinstance(t, SymDtype) for t in obj.dtypes)

    def sum_(self, *args, **kwargs):
        min_count = kwargs.get("min_count", 0) or 0
        try:
            obj = self._obj_with_exclusions
        except Exception:
            obj = None
        if min_count and obj is not None and _is_sym(obj):
            def one(x):
                if isinstance(x.dtype, SymDtype):
                    return x.array._reduce("sum", min_count=min_count)
                return x.sum(min_count=min_count)
            out = self.agg(one)
            if isinstance(out, pd.Series) and isinstance(obj, pd.Series):
                out = pd.Series(SymArray(list(out.to_numpy(dtype=object))), index=out.index, name=out.name)
            elif isinstance(out, pd.DataFrame):
                for c in out.columns:
                    if isinstance(obj[c].dtype, SymDtype):
                        out[c] = SymArray(list(out[c].to_numpy(dtype=object)))
            return out
        kwargs.pop("skipna", None) if "skipna" in kwargs and "skipna" not in orig.__code__.co_varnames else None
        return orig(self, *args, **kwargs)
    sum_._symv = True
    GroupBy.sum = sum_


_install_groupby_sum_min_count()
