"""QF_FP lemmas that justify modelling a float64 comparison by its real-arithmetic counterpart (DESIGN 2.7).
Each lemma is one bit-precise SMT query over IEEE-754 binary64 with round-to-nearest-even."""
from __future__ import annotations

import time

import z3


def half_lemma(case, max_n, what):
    """for ints 0 <= k <= n, 1 <= n <= max_n:   fp.div(RNE, k, n) <= 0.5   <=>   2k <= n     (and likewise  > 0.5 <=> 2k > n)"""
    bits = max(2, int(max_n).bit_length())
    kb, nb = z3.BitVec("kb", bits), z3.BitVec("nb", bits)
    fk = z3.fpUnsignedToFP(z3.RNE(), kb, z3.Float64())
    fn = z3.fpUnsignedToFP(z3.RNE(), nb, z3.Float64())
    q = z3.fpDiv(z3.RNE(), fk, fn)
    half = z3.FPVal(0.5, z3.Float64())
    le, gt = z3.fpLEQ(q, half), z3.fpGT(q, half)
    real_le = z3.ULE(z3.ZeroExt(2, kb) * 2, z3.ZeroExt(2, nb))
    s = z3.Solver()
    s.set("timeout", 900000)
    s.add(z3.ULE(kb, nb), z3.ULE(nb, max_n), z3.UGE(nb, 1), z3.Or(le != real_le, gt == real_le))
    t = time.time()
    r = str(s.check())
    label = f"FP lemma: k/n <= 0.5 in float64 <=> 2k <= n (0<=k<=n<={max_n}; {what})"
    case.rep["obligations"] += 1
    case.rep["obligation_labels"][label] = 1
    if r == "unsat":
        case.rep["discharged"] += 1
    elif r == "sat":
        m = s.model()
        case.violation(label, "fp_half", dict(k=m[kb].as_long(), n=m[nb].as_long()), "float and real comparison disagree")
    else:
        case.rep["inconclusive"].append("FP lemma: solver unknown")
    case.rep["paths"] += 1
    case.rep["nontrivial_paths"] += 1
    case.stats.queries += 1
    case.stats.solver_s += time.time() - t
    case.sample(dict(lemma=label, verdict=r, solver_s=round(time.time() - t, 2)))
    case.regime("FP lemma decided", r == "unsat")


def replay_half(inp):
    k, n = inp["k"], inp["n"]
    return ((k / n) <= 0.5) != (2 * k <= n), f"k={k}, n={n}: k/n={k / n!r}"
