"""Runs all cases of one property in a process pool, aggregates the reports,
writes the evidence file and decides the exit code.

exit 0  property held on everything explored (known findings are printed)
exit 1  VIOLATION (a solver counterexample that reproduces on the real code)
exit 2  inconclusive obligation(s) (solver unknown)
exit 3  harness error (non-reproducing counterexample, trace mismatch, crash of the machinery)
"""
from __future__ import annotations

import importlib
import json
import multiprocessing as mp
import os
import sys
import time
import traceback

ROOT = os.path.dirname(os.path.dirname(os.path.abspath(__file__)))
OUT = os.environ.get("VERIF_OUT_DIR") or ROOT  # evidence/ and replays/ (override only for experiments against scratch trees)


def _worker(pid, case_name, tier, seed):
    import warnings
    warnings.simplefilter("ignore")
    import logging
    logging.disable(logging.CRITICAL)
    sys.path.insert(0, ROOT)
    from symv.case import Case
    from symv import engine as E
    mod = importlib.import_module(f"harness.{pid.lower()}")
    case = Case(pid, case_name, tier, seed, harness=mod)
    t0 = time.time()
    import contextlib, io
    sink = io.StringIO()
    try:
        with contextlib.redirect_stdout(sink):  # the repository prints warnings (developer mode etc.)
            mod.run_case(case, case_name)
    except E.SymControl as ex:
        case.rep["harness_errors"].append(f"{case_name}: {type(ex).__name__}: {ex}\n{traceback.format_exc()[-1500:]}")
    except Exception as ex:
        case.rep["harness_errors"].append(f"{case_name}: {type(ex).__name__}: {ex}\n{traceback.format_exc()[-1500:]}")
    case.rep["stats"] = case.stats.as_dict()
    case.rep["wall_s"] = round(time.time() - t0, 2)
    return case.rep


def _empty_report(name, err):
    return dict(name=name, harness_errors=[err], obligations=0, discharged=0, ground=0, inconclusive=[], violations=[],
                known_findings=[], nonreproducing=[], samples=[], regimes={}, validated=0, validation_mismatch=[], notes=[],
                paths=0, nontrivial_paths=0, skipped_after_violation=0, obligation_labels={}, twin_checked=0, twin_ok=0,
                stats={}, wall_s=0, exc_outcomes={})


def _child(conn, pid, name, tier, seed):
    try:
        rep = _worker(pid, name, tier, seed)
    except BaseException as ex:  # noqa
        rep = _empty_report(name, f"worker failed: {ex!r}\n{traceback.format_exc()[-1200:]}")
    try:
        conn.send(rep)
    finally:
        conn.close()


def run_property(pid: str, tier: str, seed: int, jobs: int | None = None, only=None):
    """one OS process per case (spawn), at most `jobs` at a time, each under a wall-clock limit: a solver call
    that ignores its timeout (seen with nlsat on huge coefficients) ends as a harness error, never as a hang."""
    t0 = time.time()
    sys.path.insert(0, ROOT)
    import shutil
    shutil.rmtree(os.path.join(OUT, "replays", pid), ignore_errors=True)  # replays of an earlier run are stale
    mod = importlib.import_module(f"harness.{pid.lower()}")
    names = list(mod.cases(tier, seed))
    if only:
        names = [n for n in names if any(o in n for o in only)]
    jobs = jobs or int(os.environ.get("VERIF_JOBS", "0")) or min(16, os.cpu_count() or 4)
    jobs = max(1, min(jobs, len(names)))
    limit = float(os.environ.get("VERIF_CASE_TIMEOUT") or 0)
    if not limit:
        ct = getattr(mod, "CASE_TIMEOUT", None)
        limit = float(ct.get(tier, 0)) if isinstance(ct, dict) else 0.0
    if not limit:
        limit = 3600.0 if tier == "thorough" else 1500.0  # wall clock per case; generous: a loaded machine must not turn a slow case into a harness error
    reports = []
    if os.environ.get("VERIF_INLINE"):
        for n in names:
            reports.append(_worker(pid, n, tier, seed))
    else:
        ctx = mp.get_context("spawn")
        pending = list(names)
        running = {}  # name -> (proc, conn, start)
        while pending or running:
            while pending and len(running) < jobs:
                n = pending.pop(0)
                parent, child = ctx.Pipe(duplex=False)
                pr = ctx.Process(target=_child, args=(child, pid, n, tier, seed), daemon=True)
                pr.start()
                child.close()
                running[n] = (pr, parent, time.time())
            done = []
            for n, (pr, conn, st) in running.items():
                if conn.poll(0):
                    try:
                        reports.append(conn.recv())
                    except EOFError:
                        reports.append(_empty_report(n, "worker died without a report"))
                    pr.join(5)
                    done.append(n)
                elif not pr.is_alive():
                    reports.append(_empty_report(n, f"worker exited with code {pr.exitcode} without a report"))
                    done.append(n)
                elif time.time() - st > limit:
                    pr.kill()
                    pr.join(5)
                    reports.append(_empty_report(n, f"case exceeded its wall-clock limit of {limit:.0f}s (killed): inconclusive"))
                    done.append(n)
            for n in done:
                running.pop(n)
            if not done:
                time.sleep(0.05)
    reports.sort(key=lambda r: r["name"])
    return finish(pid, tier, seed, mod, reports, time.time() - t0)


def _dedupe_known(known):
    out, seen = [], set()
    for k in known:
        if k["id"] in seen:
            continue
        seen.add(k["id"])
        out.append(dict(id=k["id"], witness=k["inputs"], detail=k["detail"][:300]))
    return out


def finish(pid, tier, seed, mod, reports, wall):
    from symv.case import func_info
    agg = dict(obligations=0, discharged=0, ground=0, paths=0, nontrivial_paths=0, validated=0, skipped_after_violation=0,
               twin_checked=0, twin_ok=0, xsolver_checked=0, xsolver_agree=0, xsolver_unknown=0, xsolver_s=0.0)
    stats = {}
    inconclusive, violations, known, nonrepro, herrs, mism, notes, samples = [], [], [], [], [], [], [], []
    regimes, labels, excs = {}, {}, {}
    for r in reports:
        for k in agg:
            agg[k] += r.get(k, 0)
        for k, v in r.get("stats", {}).items():
            stats[k] = round(stats.get(k, 0) + v, 3)
        inconclusive += [f"{r['name']}: {x}" for x in r["inconclusive"]]
        violations += r["violations"]
        known += r["known_findings"]
        nonrepro += [dict(case=r["name"], **x) for x in r["nonreproducing"]]
        herrs += r["harness_errors"]
        mism += r["validation_mismatch"]
        notes += [f"{r['name']}: {n}" for n in r["notes"]]
        for s in r["samples"][:2]:
            if len(samples) < 12:
                samples.append(dict(case=r["name"], sample=s))
        for k, v in r["regimes"].items():
            regimes[f"{r['name']}:{k}" if getattr(mod, "REGIMES_PER_CASE", False) else k] = regimes.get(k, False) or v
        for k, v in r["obligation_labels"].items():
            labels[k] = labels.get(k, 0) + v
        for k, v in r.get("exc_outcomes", {}).items():
            excs[k] = excs.get(k, 0) + v
    missing_regimes = [k for k in getattr(mod, "EXPECTED_REGIMES", []) if not regimes.get(k)]
    unreached = [k for k, v in regimes.items() if not v]
    for k in sorted(set(missing_regimes + unreached)):
        herrs.append(f"expected regime not reached: {k}")
    if agg["obligations"] == 0:
        herrs.append("no obligations were generated (vacuous run)")
    if agg["twin_checked"] != agg["twin_ok"]:
        herrs.append("reachability twin failed on some path")
    for m in mism:
        herrs.append(f"trace validation mismatch: {json.dumps(m)[:400]}")
    for n in nonrepro:
        herrs.append(f"NONREPRODUCING counterexample: {json.dumps(n)[:600]}")

    # known findings: one line per listed finding that was witnessed
    seen = set()
    for k in known:
        if k["id"] in seen:
            continue
        seen.add(k["id"])
        print(f"KNOWN-FINDING: property={pid} {k['id']}: {k['what']}")
    for v in violations:
        print(f"VIOLATION property={pid} replay={v['replay']}")
        print(f"  case={v['case']} obligation={v['label']}\n  detail={v['detail'][:400]}")
    for x in inconclusive[:20]:
        print(f"INCONCLUSIVE property={pid} {x}")
    for x in herrs[:20]:
        print(f"HARNESS-ERROR property={pid} {x[:1200]}")

    funcs = [func_info(f) for f in getattr(mod, "ENCODED", lambda: [])()]
    ev = dict(
        property_id=pid, tier=tier, seed=int(seed), level="other", wall_s=round(wall, 2),
        violations=len(violations),
        coverage=dict(
            explanation=("bounded symbolic execution of the repository's own function objects on z3-backed proxies "
                         "(path-complete DFS inside the stated bounds) + one SMT query per obligation and path; "
                         "unsat = holds for every value on that path, sat = counterexample replayed on the unpatched code. "
                         + getattr(mod, "EXPLANATION", "")),
            functions_encoded=funcs,
            bounds=getattr(mod, "BOUNDS", {}).get(tier, getattr(mod, "BOUNDS", {})),
            evaluations=agg["paths"],
            distinct_nontrivial=agg["nontrivial_paths"],
            rule=("one evaluation = one feasible execution path of the encoded functions (distinct by construction: "
                  "paths differ in at least one branch decision); non-trivial = the path condition contains at least one "
                  "decision on a symbolic value. " + getattr(mod, "RULE", "")),
            paths=agg["paths"],
            obligations=agg["obligations"], discharged=agg["discharged"], ground_obligations=agg["ground"],
            obligations_by_label=labels,
            inconclusive=len(inconclusive), skipped_after_violation=agg["skipped_after_violation"],
            known_findings=_dedupe_known(known),
            queries=stats.get("queries", 0), solver_s=stats.get("solver_s", 0.0),
            branch_decisions=stats.get("branch_decisions", 0), unknown_feasibility=stats.get("unknown_feasibility", 0),
            traces_validated_against_impl=agg["validated"],
            reachability_twins=dict(checked=agg["twin_checked"], violated_as_expected=agg["twin_ok"]),
            cross_solver_audit=dict(solver="cvc5 1.4.0 (python wheel) on the SMT-LIB2 text of the z3 query", sampled_obligations=agg["xsolver_checked"],
                                    agree_unsat=agg["xsolver_agree"], cvc5_unknown=agg["xsolver_unknown"], disagree=0 if not any("solvers disagree" in h for h in herrs) else sum("solvers disagree" in h for h in herrs),
                                    cvc5_s=round(agg["xsolver_s"], 2)),
            regimes_reached={k: v for k, v in sorted(regimes.items())},
            exception_outcomes=excs,
            stubs=getattr(mod, "STUBS", []),
            models_used=getattr(mod, "MODELS_USED", []),
            cases=[dict(name=r["name"], paths=r["paths"], obligations=r["obligations"], discharged=r["discharged"],
                        wall_s=r.get("wall_s", 0)) for r in reports],
            samples=samples or [dict(note="no path sample recorded")],
            exhaustive=bool(getattr(mod, "EXHAUSTIVE", False)),
            trusted_base=["z3 5.1.0 (cvc5 1.4.0 second opinion on unknown)", "CPython 3.12 / numpy / pandas structural code executed for real",
                          "symv proxies + carriers (symv/*.py)", "real-for-float64 modelling (DESIGN 2.7)"] + getattr(mod, "TRUSTED", []),
            notes=notes[:40],
            harness_errors=herrs[:20],
        ),
        assumptions=getattr(mod, "ASSUMPTIONS", []),
    )
    os.makedirs(os.path.join(OUT, "evidence"), exist_ok=True)
    with open(os.path.join(OUT, "evidence", f"{pid}.json"), "w") as f:
        json.dump(ev, f, indent=1, default=str)
    code = 0
    if violations:
        code = 1
    elif herrs:
        code = 3
    elif inconclusive:
        code = 2
    print(f"[{pid}] tier={tier} seed={seed} cases={len(reports)} paths={agg['paths']} obligations={agg['obligations']} "
          f"discharged={agg['discharged']} violations={len(violations)} known={len(seen)} "
          f"inconclusive={len(inconclusive)} harness_errors={len(herrs)} queries={stats.get('queries', 0)} "
          f"solver_s={stats.get('solver_s', 0)} wall_s={round(wall, 1)} exit={code}")
    return code
