"""Carriers that let proxies flow through the repository's real code:

* SymND      - ndarray(dtype=object) subclass; astype(float) is the identity
* symnp      - a stand-in for the module global ``np`` (delegates to numpy except
               for a few functions that cannot take proxies / should not fork)
* dejit      - rebuild a numba dispatcher's python function with de-jitted callees
* rebuild    - rebuild a plain python function with patched globals
* patched    - context manager: temporarily set module attributes
"""
from __future__ import annotations

import contextlib
import types

import numpy as _np
import z3

from . import engine as E
from .proxies import SReal, SInt, SBool, is_nan, ite, lift, NAN, INF, _mk, to_real, _unsupported


def _is_symobj(x):
    return isinstance(x, (SReal, SBool))


class SymND(_np.ndarray):
    """object ndarray carrying proxies."""

    def __new__(cls, data):
        a = _np.empty(len(data), dtype=object) if not isinstance(data, _np.ndarray) else None
        if a is None:
            a = _np.asarray(data, dtype=object)
        else:
            for i, v in enumerate(data):
                a[i] = v
        return a.view(cls)

    def astype(self, dtype, *a, **k):
        dt = _np.dtype(dtype)
        if dt.kind in "fO":
            return self.copy()
        return _np.asarray(self).astype(dtype, *a, **k)

    def __array_ufunc__(self, ufunc, method, *inputs, **kwargs):
        if method == "__call__" and ufunc in _UFUNC_MODELS and not kwargs.get("out"):
            return _UFUNC_MODELS[ufunc](*inputs)
        ins = tuple(_np.asarray(x) if isinstance(x, SymND) else x for x in inputs)
        if "out" in kwargs and kwargs["out"] is not None:
            kwargs["out"] = tuple(_np.asarray(x) if isinstance(x, SymND) else x for x in kwargs["out"])
        r = getattr(ufunc, method)(*ins, **kwargs)
        if isinstance(r, _np.ndarray) and r.dtype == object:
            return r.view(SymND)
        return r


def symarr(vals):
    return SymND(list(vals))


def _elementwise(f):
    def g(*arrs):
        shape = None
        for a in arrs:
            if isinstance(a, _np.ndarray) and a.ndim > 0:
                shape = a.shape
        if shape is None:
            return f(*[a.item() if isinstance(a, _np.ndarray) else a for a in arrs])
        bs = _np.broadcast_arrays(*[_np.asarray(a, dtype=object) for a in arrs])
        out = _np.empty(bs[0].shape, dtype=object)
        for idx in _np.ndindex(out.shape):
            out[idx] = f(*[b[idx] for b in bs])
        return out.view(SymND)
    return g


def _isfinite1(x):
    if _is_symobj(x):
        return True
    if x is None:
        return False
    return bool(_np.isfinite(x))


def _isnan1(x):
    if _is_symobj(x):
        return False
    if x is None:
        return True
    return bool(_np.isnan(x))


def _max1(a, b):
    if is_nan(a) or is_nan(b):
        return NAN
    if not _is_symobj(a) and not _is_symobj(b):
        return max(a, b)
    c = a >= b
    if isinstance(c, (bool, _np.bool_)):
        return a if c else b
    return ite(c, a, b)


def _min1(a, b):
    if is_nan(a) or is_nan(b):
        return NAN
    if not _is_symobj(a) and not _is_symobj(b):
        return min(a, b)
    c = a <= b
    if isinstance(c, (bool, _np.bool_)):
        return a if c else b
    return ite(c, a, b)


def _abs1(a):
    return abs(a)


def _boolarr(f):
    g = _elementwise(f)

    def h(*a):
        r = g(*a)
        if isinstance(r, _np.ndarray):
            return _np.asarray(r).astype(bool)
        return r
    return h


def _exp1(a):
    if isinstance(a, SReal):
        return a.exp()
    return _np.exp(a)


def _sqrt1(a):
    if isinstance(a, SReal):
        return a.sqrt()
    return _np.sqrt(a) if a >= 0 else NAN


def _log1(a):
    if isinstance(a, SReal):
        return a.log()
    return _np.log(a)


def _square1(a):
    return a * a


_UFUNC_MODELS = {
    _np.isfinite: _boolarr(_isfinite1),
    _np.isnan: _boolarr(_isnan1),
    _np.maximum: _elementwise(_max1),
    _np.minimum: _elementwise(_min1),
    _np.fmax: _elementwise(_max1),
    _np.fmin: _elementwise(_min1),
    _np.absolute: _elementwise(_abs1),
    _np.exp: _elementwise(_exp1),
    _np.sqrt: _elementwise(_sqrt1),
    _np.log: _elementwise(_log1),
    _np.square: _elementwise(_square1),
}


def _anysym(a):
    if _is_symobj(a):
        return True
    arr = getattr(a, "array", None)
    if arr is not None and type(arr).__name__ == "SymArray":
        return True
    if type(a).__name__ == "SymArray":
        return True
    if isinstance(a, SymND):
        return True
    if isinstance(a, _np.ndarray) and a.dtype == object:
        return any(_is_symobj(x) for x in a.flat)
    if isinstance(a, (list, tuple)):
        return any(_anysym(x) for x in a)
    return False


def _is_pandas(a):
    return type(a).__module__.startswith("pandas")


class SymNP:
    """stand-in for the module global `np` inside code under test."""

    def __getattr__(self, n):
        return getattr(_np, n)

    # ---- no-fork models
    def clip(self, a, lo, hi, **kw):
        if not (_anysym(a) or _anysym(lo) or _anysym(hi)):
            return _np.clip(a, lo, hi, **kw)
        def one(x, l, h):
            if is_nan(x):
                return x
            # omit a bound that the path condition already excludes (keeps terms small; 1 query each)
            if _is_symobj(x) and E.CUR is not None:
                eng = E.CUR
                if eng.check(lift(x) < lift(l), want_model=False)[0] != "unsat":
                    x = _max1(x, l)
                if eng.check(lift(x) > lift(h), want_model=False)[0] != "unsat":
                    x = _min1(x, h)
                return x
            return _min1(_max1(x, l), h)
        return _elementwise(one)(a, lo, hi)

    def maximum(self, a, b):
        return _UFUNC_MODELS[_np.maximum](a, b) if (_anysym(a) or _anysym(b)) else _np.maximum(a, b)

    def minimum(self, a, b):
        return _UFUNC_MODELS[_np.minimum](a, b) if (_anysym(a) or _anysym(b)) else _np.minimum(a, b)

    def abs(self, a):
        if _is_pandas(a):
            return _np.abs(a)
        return _UFUNC_MODELS[_np.absolute](a) if _anysym(a) else _np.abs(a)

    absolute = abs

    def exp(self, a):
        if _is_pandas(a):
            return _np.exp(a)
        return _UFUNC_MODELS[_np.exp](a) if _anysym(a) else _np.exp(a)

    def sqrt(self, a):
        if _is_pandas(a):
            return _np.sqrt(a)
        return _UFUNC_MODELS[_np.sqrt](a) if _anysym(a) else _np.sqrt(a)

    def log(self, a):
        if _is_pandas(a):
            return _np.log(a)
        return _UFUNC_MODELS[_np.log](a) if _anysym(a) else _np.log(a)

    def isfinite(self, a):
        if _is_pandas(a):
            return _np.isfinite(a)
        if _anysym(a) or (isinstance(a, _np.ndarray) and a.dtype == object):
            return _UFUNC_MODELS[_np.isfinite](a)
        return _np.isfinite(a)

    def isnan(self, a):
        if _is_pandas(a):
            return _np.isnan(a)
        if _anysym(a) or (isinstance(a, _np.ndarray) and a.dtype == object):
            return _UFUNC_MODELS[_np.isnan](a)
        return _np.isnan(a)

    def array(self, obj, *a, **k):
        if _anysym(obj) and "dtype" not in k and not a:
            if isinstance(obj, (list, tuple)) and all(not isinstance(x, (list, tuple, _np.ndarray)) for x in obj):
                return SymND(list(obj))
            r = _np.array(obj, dtype=object)
            return r.view(SymND)
        return _np.array(obj, *a, **k)

    def asarray(self, obj, *a, **k):
        if isinstance(obj, SymND):
            return obj
        if _anysym(obj):
            return self.array(obj)
        return _np.asarray(obj, *a, **k)

    def ones_like(self, a, *args, **k):
        r = _np.ones_like(a, *args, **k)
        return r

    def hstack(self, tup):
        r = _np.hstack(tup)
        if r.dtype == object:
            return r.view(SymND)
        return r

    def mean(self, a, *args, **k):
        if _is_pandas(a):
            return _np.mean(a, *args, **k)
        if _anysym(a) and not args and not k:
            a = _np.asarray(a, dtype=object).ravel()
            if len(a) == 0:
                return NAN
            s = a[0]
            for v in a[1:]:
                s = s + v
            return s / len(a)
        return _np.mean(a, *args, **k)

    def sum(self, a, *args, **k):
        if _is_pandas(a):
            return _np.sum(a, *args, **k)
        if _anysym(a) and not args and not k:
            a = _np.asarray(a, dtype=object).ravel()
            s = 0.0
            for v in a:
                s = s + v
            return s
        return _np.sum(a, *args, **k)

    def diff(self, a, *args, **k):
        if _anysym(a):
            a = _np.asarray(a, dtype=object)
            return SymND([a[i + 1] - a[i] for i in range(len(a) - 1)])
        return _np.diff(a, *args, **k)

    def sort(self, a, axis=-1, **k):
        """np.sort; rows/vectors holding symbolic values go through the fork-free sorting network"""
        if not _anysym(a):
            return _np.sort(a, axis=axis, **k)
        arr = _np.array(a, dtype=object)
        if arr.ndim == 1:
            return _np.array(self.sort_sym(list(arr)), dtype=object).view(SymND)
        if arr.ndim == 2 and axis in (1, -1):
            out = _np.empty(arr.shape, dtype=object)
            for i in range(arr.shape[0]):
                out[i, :] = self.sort_sym(list(arr[i, :]))
            return out.view(SymND)
        from .engine import Unsupported
        raise Unsupported(f"symnp.sort on shape {arr.shape} axis {axis}")

    def min(self, a, *args, **k):
        """np.min of a 1-D vector holding symbolic values: fork-free ITE chain"""
        if args or k or not _anysym(a) or _np.ndim(a) != 1:
            return _np.min(a, *args, **k)
        v = list(_np.asarray(a, dtype=object))
        out = v[0]
        for x in v[1:]:
            out = _min1(out, x)
        return out

    def max(self, a, *args, **k):
        if args or k or not _anysym(a) or _np.ndim(a) != 1:
            return _np.max(a, *args, **k)
        v = list(_np.asarray(a, dtype=object))
        out = v[0]
        for x in v[1:]:
            out = _max1(out, x)
        return out

    def partition(self, a, kth, *args, **k):
        """np.partition: any arrangement with the kth element in sorted position and smaller/larger elements on its sides;
        the fully sorted vector is one such arrangement (callers only index the result at kth)"""
        if not _anysym(a):
            return _np.partition(a, kth, *args, **k)
        arr = _np.array(a, dtype=object)
        if arr.ndim != 1:
            from .engine import Unsupported
            raise Unsupported(f"symnp.partition on shape {arr.shape}")
        n = len(arr)
        kk = int(kth)
        if not -n <= kk < n:
            raise ValueError(f"kth(={kk}) out of bounds ({n})")  # as numpy
        return _np.array(self.sort_sym(list(arr)), dtype=object).view(SymND)

    def sort_sym(self, vals):
        """sorting network by symbolic comparisons (no fork): returns sorted list."""
        v = list(vals)
        n = len(v)
        for i in range(n):
            for j in range(n - 1 - i):
                lo, hi = _min1(v[j], v[j + 1]), _max1(v[j], v[j + 1])
                v[j], v[j + 1] = lo, hi
        return v

    def quantile(self, a, q, *args, **k):
        if not _anysym(a):
            return _np.quantile(a, q, *args, **k)
        vals = [x for x in _np.asarray(a, dtype=object).ravel()]
        if any(is_nan(x) for x in vals):
            return NAN if _np.isscalar(q) else _np.full(len(q), NAN)
        s = self.sort_sym(vals)
        n = len(s)
        if n == 0:
            raise IndexError("index -1 is out of bounds for axis 0 with size 0")  # as numpy.quantile on an empty array

        def one(qq):
            # numpy 'linear' method: virtual index (n-1)*q
            from fractions import Fraction
            pos = Fraction(qq).limit_denominator(10**6) * (n - 1)
            lo = int(pos)
            g = pos - lo
            if g == 0 or lo + 1 >= n:
                return s[lo]
            return s[lo] + (s[lo + 1] - s[lo]) * g
        if _np.isscalar(q):
            return one(q)
        return SymND([one(x) for x in q])

    def median(self, a, *args, **k):
        if not _anysym(a):
            return _np.median(a, *args, **k)
        return self.quantile(a, 0.5)

    def nanmean(self, a, *args, **k):
        if _anysym(a) and not args and not k:
            vals = [x for x in _np.asarray(a, dtype=object).ravel() if not is_nan(x)]
            return self.mean(vals) if vals else NAN
        return _np.nanmean(a, *args, **k)


symnp = SymNP()

# ---------------------------------------------------------------- de-jitting
_GLOBALS_MEMO: dict = {}
_FN_MEMO: dict = {}


def _patched_globals(g):
    key = id(g)
    if key in _GLOBALS_MEMO:
        return _GLOBALS_MEMO[key]
    ng = dict(g)
    _GLOBALS_MEMO[key] = ng
    for k, v in list(g.items()):
        if hasattr(v, "py_func") and hasattr(v, "nopython_signatures"):
            ng[k] = dejit(v)
    if "np" in ng:
        ng["np"] = symnp
    return ng


def dejit(fn):
    """python twin of a numba dispatcher whose callees are de-jitted twins and whose
    `np` is symnp.  Source of truth stays /repo: we reuse the very code object."""
    py = getattr(fn, "py_func", fn)
    key = id(py)
    if key in _FN_MEMO:
        return _FN_MEMO[key]
    ng = _patched_globals(py.__globals__)
    new = types.FunctionType(py.__code__, ng, py.__name__, py.__defaults__, py.__closure__)
    new.__kwdefaults__ = py.__kwdefaults__
    new.__wrapped_original__ = fn
    _FN_MEMO[key] = new
    return new


def rebuild(fn, **patches):
    """same code object, globals overlaid with `patches`."""
    py = getattr(fn, "py_func", fn)
    g = dict(py.__globals__)
    g.update(patches)
    new = types.FunctionType(py.__code__, g, py.__name__, py.__defaults__, py.__closure__)
    new.__kwdefaults__ = py.__kwdefaults__
    return new


@contextlib.contextmanager
def patched(obj, **attrs):
    """temporarily set attributes on a module/class (harness side only)."""
    missing = object()
    old = {k: obj.__dict__.get(k, missing) if hasattr(obj, "__dict__") else getattr(obj, k, missing) for k in attrs}
    try:
        for k, v in attrs.items():
            setattr(obj, k, v)
        yield
    finally:
        for k, v in old.items():
            if v is missing:
                try:
                    delattr(obj, k)
                except AttributeError:
                    pass
            else:
                setattr(obj, k, v)
