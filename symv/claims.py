"""Tolerance-aware concrete evaluation of a z3 claim (used by replayers).

up(phi)   : over-approximation of truth  (comparisons satisfied if within tolerance)
down(phi) : under-approximation of truth (comparisons must hold with margin)
A counterexample is *confirmed* on the real code iff  not up(claim)."""
from __future__ import annotations

import math

import z3

from .proxies import numeval, INF


def _tol(a, b, rel, abs_):
    if isinstance(a, bool) or isinstance(b, bool):
        return 0.0
    if math.isinf(a) or math.isinf(b) or a != a or b != b:
        return 0.0
    return abs_ + rel * max(abs(a), abs(b))


def truth(e, env, mode="up", rel=1e-7, abs_=1e-9):
    """mode 'up' or 'down'"""
    up = mode == "up"
    flip = "down" if up else "up"
    if z3.is_true(e):
        return True
    if z3.is_false(e):
        return False
    k = e.decl().kind()
    if k == z3.Z3_OP_AND:
        return all(truth(c, env, mode, rel, abs_) for c in e.children())
    if k == z3.Z3_OP_OR:
        return any(truth(c, env, mode, rel, abs_) for c in e.children())
    if k == z3.Z3_OP_NOT:
        return not truth(e.arg(0), env, flip, rel, abs_)
    if k == z3.Z3_OP_IMPLIES:
        return (not truth(e.arg(0), env, flip, rel, abs_)) or truth(e.arg(1), env, mode, rel, abs_)
    if k == z3.Z3_OP_ITE and z3.is_bool(e):
        c = truth(e.arg(0), env, "up", rel, abs_)
        return truth(e.arg(1) if c else e.arg(2), env, mode, rel, abs_)
    if k == z3.Z3_OP_UNINTERPRETED and e.num_args() == 0 and z3.is_bool(e):
        return bool(env[e.decl().name()])
    if k in (z3.Z3_OP_LE, z3.Z3_OP_LT, z3.Z3_OP_GE, z3.Z3_OP_GT, z3.Z3_OP_EQ, z3.Z3_OP_DISTINCT):
        a0, a1 = e.arg(0), e.arg(1)
        if z3.is_bool(a0):
            x, y = truth(a0, env, "up", rel, abs_), truth(a1, env, "up", rel, abs_)
            return (x == y) if k == z3.Z3_OP_EQ else (x != y)
        a, b = numeval(a0, env), numeval(a1, env)
        if a != a or b != b:
            return k == z3.Z3_OP_DISTINCT
        t = _tol(a, b, rel, abs_)
        s = t if up else -t
        if k == z3.Z3_OP_LE:
            return a <= b + s
        if k == z3.Z3_OP_LT:
            return a < b + s
        if k == z3.Z3_OP_GE:
            return a >= b - s
        if k == z3.Z3_OP_GT:
            return a > b - s
        if k == z3.Z3_OP_EQ:
            return abs(a - b) <= t if up else a == b
        if k == z3.Z3_OP_DISTINCT:
            return (a != b) if up else abs(a - b) > t
    raise ValueError(f"truth(): unsupported {e.decl().name()}")


def violated(claim, env, rel=1e-7, abs_=1e-9):
    """True iff the claim is false on the concrete values beyond tolerance."""
    return not truth(claim, env, "up", rel, abs_)
