"""Per-case context: obligations, counterexample replay, known-finding regions,
trace validation, report collection."""
from __future__ import annotations

import hashlib
import inspect
import json
import math
import os
import time
import traceback
from typing import Any, Callable, Iterable, Optional

import z3

from . import engine as E
from .engine import Engine, Path, Stats, solve
from .proxies import SBool, SReal, lift, mvals, model_env, numeval, zval

ROOT = os.path.dirname(os.path.dirname(os.path.abspath(__file__)))
OUT = os.environ.get("VERIF_OUT_DIR") or ROOT  # evidence/ and replays/ (override only for experiments against scratch trees)
MAX_VIOL_PER_LABEL = 2


def load_known_findings():
    p = os.path.join(ROOT, "known_findings.json")
    if not os.path.exists(p):
        return {}
    with open(p) as f:
        data = json.load(f)
    out = {}
    for ent in data.get("findings", []):
        out[ent["id"]] = ent
    return out


def as_z3_bool(c):
    if isinstance(c, SBool):
        return c.e
    if isinstance(c, (bool,)):
        return z3.BoolVal(c)
    if z3.is_expr(c):
        return c
    import numpy as np
    if isinstance(c, np.bool_):
        return z3.BoolVal(bool(c))
    raise TypeError(f"not a boolean claim: {c!r}")


def close(a, b, rel=1e-9):
    """a == b up to relative tolerance (needed where the code multiplies by inexact float constants)."""
    a = a if z3.is_expr(a) else lift(a)
    b = b if z3.is_expr(b) else lift(b)
    d = a - b
    m = z3.If(a >= 0, a, -a) + z3.If(b >= 0, b, -b)
    tol = z3.RealVal(str(rel))
    return z3.And(d <= tol * m, -d <= tol * m)


def close_sum(v, terms, rel=1e-9, scale=1):
    """v == scale * sum(terms) up to a tolerance relative to the magnitude of the TERMS (sum |t|), which is what float
    (and the inexact atom constants) can deliver when terms cancel"""
    v = v if z3.is_expr(v) else lift(v)
    s = sum(terms, z3.RealVal(0)) * scale
    mag = sum((z3.If(t >= 0, t, -t) for t in terms), z3.RealVal(0)) * (scale if not z3.is_expr(scale) else scale)
    tol = z3.RealVal(str(rel)) * mag
    return z3.And(v - s <= tol, s - v <= tol)


def linear_coeffs(v, variables):
    """coefficients of a term that is linear in `variables`: returns (const, {name: Fraction}) by evaluating the term at
    0 and at the unit vectors (z3 substitute + simplify).  The caller must still prove v == const + sum c_i x_i."""
    from fractions import Fraction
    zero = [(x, z3.RealVal(0)) for x in variables]
    def val(e):
        e = z3.simplify(e)
        if z3.is_int_value(e):
            return Fraction(e.as_long())
        if z3.is_rational_value(e):
            return Fraction(e.numerator_as_long(), e.denominator_as_long())
        raise ValueError(f"not a constant: {str(e)[:80]}")
    c0 = val(z3.substitute(v, *zero))
    out = {}
    for i, x in enumerate(variables):
        sub = list(zero)
        sub[i] = (x, z3.RealVal(1))
        c = val(z3.substitute(v, *sub)) - c0
        if c != 0:
            out[x.decl().name()] = c
    return c0, out


def jsonable(x):
    import numpy as np
    from fractions import Fraction
    if isinstance(x, dict):
        return {str(k): jsonable(v) for k, v in x.items()}
    if isinstance(x, (list, tuple)):
        return [jsonable(v) for v in x]
    if isinstance(x, np.ndarray):
        return [jsonable(v) for v in x.tolist()]
    if isinstance(x, (np.floating, float)):
        f = float(x)
        if f != f:
            return "nan"
        if f in (float("inf"), float("-inf")):
            return "inf" if f > 0 else "-inf"
        return f
    if isinstance(x, (np.integer,)):
        return int(x)
    if isinstance(x, (np.bool_,)):
        return bool(x)
    if isinstance(x, Fraction):
        return float(x)
    if isinstance(x, (int, str, bool)) or x is None:
        return x
    return repr(x)


def unjson_num(x):
    if x == "nan":
        return float("nan")
    if x == "inf":
        return float("inf")
    if x == "-inf":
        return float("-inf")
    return x


class Case:
    def __init__(self, prop: str, name: str, tier: str, seed: int, harness=None):
        self.prop = prop
        self.name = name
        self.tier = tier
        self.seed = seed
        self.harness = harness
        self.stats = Stats()
        self.known = load_known_findings()
        self.t0 = time.time()
        self.inputs: list = []  # z3 constants used for blocking / env extraction
        self.rep = dict(
            name=name, obligations=0, discharged=0, ground=0, inconclusive=[], violations=[],
            known_findings=[], nonreproducing=[], harness_errors=[], samples=[], regimes={},
            validated=0, validation_mismatch=[], notes=[], paths=0, nontrivial_paths=0,
            skipped_after_violation=0, obligation_labels={}, twin_checked=0, twin_ok=0, exc_outcomes={},
            xsolver_checked=0, xsolver_agree=0, xsolver_unknown=0, xsolver_s=0.0,
        )
        # cross-solver audit (DESIGN 2.10): a deterministic sample of the discharged obligations is re-decided by cvc5
        # from the SMT-LIB2 text; a contradicting verdict is a harness error, `unknown` is only recorded
        self._xs_every, self._xs_cap = ((7, 40) if tier == "thorough" else (29, 6))
        if os.environ.get("VERIF_XSOLVER") == "0":
            self._xs_cap = 0
        self._viol_per_label: dict = {}
        self._known_done: set = set()

    # ------------------------------------------------------------------ engine
    def engine(self, **kw) -> Engine:
        kw.setdefault("seed", self.seed)
        e = Engine(**kw)
        e.stats = self.stats
        return e

    def explore(self, fn, **kw):
        eng = self.engine(**kw)
        paths = eng.explore(fn)
        self.rep["paths"] += len(paths)
        self.rep["nontrivial_paths"] += sum(1 for p in paths if p.nontrivial)
        return paths

    def note(self, s):
        if len(self.rep["notes"]) < 50:
            self.rep["notes"].append(s)

    def regime(self, name, reached=True):
        self.rep["regimes"][name] = bool(self.rep["regimes"].get(name, False) or reached)

    def sample(self, obj):
        if len(self.rep["samples"]) < 4:
            self.rep["samples"].append(jsonable(obj))

    # ------------------------------------------------------------- obligations
    def prove(self, path: Path | list, claim, label: str, replay=None, exclude: Iterable = (), extra=(), refine=(), via=None):
        """Obligation: `claim` holds for every valuation satisfying the path condition.
        replay = (kind, builder) with builder(model)->json inputs for harness.REPLAY[kind].
        exclude = [(finding_id, region_formula)] known-finding regions."""
        pc = path.pc if isinstance(path, Path) else list(path)
        rep = self.rep
        rep["obligations"] += 1
        rep["obligation_labels"][label] = rep["obligation_labels"].get(label, 0) + 1
        if self._viol_per_label.get(label, 0) >= MAX_VIOL_PER_LABEL:
            rep["skipped_after_violation"] += 1
            return "skipped"
        claim = as_z3_bool(claim)
        active = [(fid, as_z3_bool(reg)) for fid, reg in exclude if fid in self.known and self.known[fid].get("status", "open") == "open"]
        base = pc + list(extra)
        main = base + [z3.Not(claim)] + [z3.Not(reg) for _, reg in active]
        if via is not None and self._prove_via(pc, claim, active, via):
            rep["discharged"] += 1
            rep["via_cuts"] = rep.get("via_cuts", 0) + 1
            r, m = "unsat-via", None
        else:
            r, m = solve(main, stats=self.stats, seed=self.seed)
        verdict = None
        if r == "unsat-via":
            verdict = "holds"
        elif r == "unsat":
            rep["discharged"] += 1
            if z3.is_true(z3.simplify(claim)):
                rep["ground"] += 1
            elif rep["xsolver_checked"] < self._xs_cap and rep["discharged"] % self._xs_every == 0:
                self._cross_solver(main, label)
            verdict = "holds"
        elif r == "unknown":
            r2 = self._second_opinion(main)
            if r2 == "unsat":
                rep["discharged"] += 1
                verdict = "holds"
            else:
                rep["inconclusive"].append(f"{label}: solver unknown")
                verdict = "unknown"
        else:
            if refine:  # abstraction refinement: prefer a model consistent with the exact definitions
                r3, m3 = solve(main + list(refine), stats=self.stats, seed=self.seed)
                if r3 == "sat":
                    main, m = main + list(refine), m3
            verdict = self._counterexample(main, m, label, replay)
        # known-finding regions: look for one reproducing witness per finding
        for fid, reg in active:
            if fid in self._known_done:
                continue
            kf = base + [reg, z3.Not(claim)] + list(refine)
            rr, mm = solve(kf, stats=self.stats, seed=self.seed)
            if rr == "sat":
                ok, inputs, detail = self._try_replay(kf, mm, replay)
                if ok:
                    self._known_done.add(fid)
                    rep["known_findings"].append(dict(id=fid, label=label, inputs=inputs, detail=detail,
                                                      what=self.known[fid].get("what_fails", "")))
        return verdict

    def _prove_via(self, pc, claim, active, via):
        """cut-based decomposition: pc |- cut_i (each proved here), and hyps & cuts[t:=v] |- claim[t:=v] where the
        terms t (e.g. predictions containing EXP) are abstracted by fresh variables v.  hyps must be assumptions that
        are part of pc (the harness passes the domain predicate it assumed).  Sound: pc |- hyps, pc |- cuts."""
        cuts, subst = via["cuts"], via["subst"]
        # hypotheses of the abstract problem: the conjuncts of pc that do not mention an uninterpreted function
        hyps = [c for c in pc if not _has_uf(c)]
        for c in cuts:
            r, _ = solve(pc + [z3.Not(c)], stats=self.stats, seed=self.seed, stages=(("default", 3000), ("qfnra-nlsat", 5000)))
            if r != "unsat":
                return False
        sub = lambda f: z3.substitute(f, *subst)
        goal = list(hyps) + [sub(c) for c in cuts] + [z3.Not(sub(claim))] + [z3.Not(sub(reg)) for _, reg in active]
        r, _ = solve(goal, stats=self.stats, seed=self.seed, stages=(("default", 3000), ("qfnra-nlsat", 8000)))
        return r == "unsat"

    def _cross_solver(self, forms, label):
        rep = self.rep
        t = time.time()
        try:
            from .solvers import cvc5_check
            r = cvc5_check(forms, timeout_ms=8000)
        except Exception:
            r = "unknown"
        rep["xsolver_s"] = round(rep["xsolver_s"] + time.time() - t, 3)
        rep["xsolver_checked"] += 1
        if r == "unsat":
            rep["xsolver_agree"] += 1
        elif r == "sat":
            rep["harness_errors"].append(f"solvers disagree on a discharged obligation (z3 unsat, cvc5 sat): {label}")
        else:
            rep["xsolver_unknown"] += 1

    def _second_opinion(self, forms):
        try:
            from .solvers import cvc5_check
            return cvc5_check(forms, timeout_ms=30000)
        except Exception:
            return "unknown"

    def _try_replay(self, forms, model, replay, tries=4):
        """returns (reproduced, inputs, detail)"""
        if replay is None:
            return (False, None, "no replayer")
        kind, builder = replay
        fn = self.harness.REPLAY[kind]
        cur_forms = list(forms)
        last = (False, None, "")
        for t in range(tries):
            try:
                inputs = jsonable(builder(model))
            except Exception as ex:
                return (False, None, f"builder failed: {ex!r}")
            try:
                bad, detail = fn(json.loads(json.dumps(inputs)))
            except Exception as ex:
                bad, detail = False, f"replayer raised {ex!r}\n{traceback.format_exc()[-600:]}"
            last = (bool(bad), inputs, str(detail)[:1500])
            if bad:
                return last
            # ask for a different model
            if not self.inputs:
                break
            blk = []
            for v in self.inputs:
                try:
                    val = model.eval(v, model_completion=True)
                    blk.append(v != val)
                except z3.Z3Exception:
                    pass
            if not blk:
                break
            cur_forms = cur_forms + [z3.Or(*blk)]
            r, model = solve(cur_forms, stats=self.stats, seed=self.seed + t + 1)
            if r != "sat":
                break
        return last

    def _counterexample(self, forms, model, label, replay):
        rep = self.rep
        ok, inputs, detail = self._try_replay(forms, model, replay)
        if ok:
            self._viol_per_label[label] = self._viol_per_label.get(label, 0) + 1
            kind = replay[0]
            rec = dict(property=self.prop, case=self.name, label=label, kind=kind, inputs=inputs, detail=detail)
            h = hashlib.sha256(json.dumps(rec, sort_keys=True).encode()).hexdigest()[:16]
            d = os.path.join(OUT, "replays", self.prop)
            os.makedirs(d, exist_ok=True)
            fp = os.path.join(d, f"{h}.json")
            with open(fp, "w") as f:
                json.dump(rec, f, indent=1, sort_keys=True)
            rec["replay"] = fp
            rep["violations"].append(rec)
            return "violated"
        rep["nonreproducing"].append(dict(label=label, inputs=inputs, detail=detail))
        return "nonreproducing"

    def prove_linear_sum(self, path, v, expected, label, rel=1e-9, replay=None, exclude=()):
        """v (linear in the inputs) == sum_i expected[x_i] * x_i up to rel.  Decided as: (1) SMT: pc |- v == c0 + sum c_i x_i
        for the extracted rational coefficients (pure LRA identity), (2) |c_i - expected_i| <= rel*|expected_i| for every
        input, c0 == 0.  Equivalent to the tolerance claim for linear terms and avoids 2^n absolute-value case splits."""
        from fractions import Fraction
        try:
            c0, cs = linear_coeffs(v, self.inputs)
        except ValueError as ex:
            return self.prove(path, False, label + " (term not linear)", replay=replay)
        ident = v == z3.RealVal(str(c0)) + sum((z3.RealVal(str(c)) * z3.Real(n) for n, c in cs.items()), z3.RealVal(0))
        ok = c0 == 0
        for n in set(cs) | set(expected):
            c, e = cs.get(n, Fraction(0)), Fraction(expected.get(n, 0))
            if abs(c - e) > Fraction(rel).limit_denominator(10**15) * abs(e):
                ok = False
        return self.prove(path, z3.And(ident, z3.BoolVal(ok)), label, replay=replay, exclude=exclude)

    def ground(self, ok: bool, label: str, replay_rec=None):
        """ground obligation evaluated on the real code (no solver quantification)."""
        rep = self.rep
        rep["obligations"] += 1
        rep["obligation_labels"][label] = rep["obligation_labels"].get(label, 0) + 1
        if ok:
            rep["discharged"] += 1
            rep["ground"] += 1
            return True
        return False

    def violation(self, label, kind, inputs, detail):
        """record a violation that has already been reproduced on the real code."""
        if self._viol_per_label.get(label, 0) >= MAX_VIOL_PER_LABEL:
            self.rep["skipped_after_violation"] += 1
            return
        self._viol_per_label[label] = self._viol_per_label.get(label, 0) + 1
        rec = dict(property=self.prop, case=self.name, label=label, kind=kind, inputs=jsonable(inputs), detail=str(detail)[:1500])
        h = hashlib.sha256(json.dumps(rec, sort_keys=True).encode()).hexdigest()[:16]
        d = os.path.join(OUT, "replays", self.prop)
        os.makedirs(d, exist_ok=True)
        fp = os.path.join(d, f"{h}.json")
        with open(fp, "w") as f:
            json.dump(rec, f, indent=1, sort_keys=True)
        rec["replay"] = fp
        self.rep["violations"].append(rec)

    def known_finding(self, fid, label, inputs, detail):
        if fid in self._known_done:
            return
        self._known_done.add(fid)
        self.rep["known_findings"].append(dict(id=fid, label=label, inputs=jsonable(inputs), detail=str(detail)[:800],
                                               what=self.known.get(fid, {}).get("what_fails", "")))

    def finding_open(self, fid):
        return fid in self.known and self.known[fid].get("status", "open") == "open"

    # ----------------------------------------------------------------- vacuity
    def twin(self, path: Path):
        """reachability twin: the obligation `False` must come back violated (pc satisfiable)."""
        self.rep["twin_checked"] += 1
        r, m = solve(path.pc, stats=self.stats, seed=self.seed)
        if r == "sat":
            self.rep["twin_ok"] += 1
            path.model = m
            return m
        if r == "unsat":
            self.rep["harness_errors"].append(f"vacuous path in {self.name} (pc unsat)")
        return None

    def reach(self, name, forms):
        """expected-regime witness: the conjunction must be satisfiable."""
        r, m = solve(list(forms), stats=self.stats, seed=self.seed)
        self.regime(name, r == "sat")
        return m if r == "sat" else None

    # -------------------------------------------------------- trace validation
    def validate(self, path: Path, sym_out, inputs_of: Callable, real_fn: Callable, rel=1e-6, abs_tol=1e-9, tries=3):
        """Serval-style validation: the path's witness is run through the real
        implementation and compared with the symbolic result under the same inputs."""
        forms = list(path.pc)
        model = path.model
        if model is None:
            r, model = solve(forms, stats=self.stats, seed=self.seed)
            if r != "sat":
                return None
            path.model = model
        last = None
        for t in range(tries):
            try:
                inputs = inputs_of(model)
                real = real_fn(inputs)
                env = model_env(model, self.inputs)
                sym = _eval_struct(sym_out, env)
                ok, why = _cmp_struct(sym, real, rel, abs_tol)
            except E.SymControl:
                raise
            except Exception as ex:
                ok, why = False, f"validation raised {ex!r} {traceback.format_exc()[-500:]}"
                inputs = None
            if ok:
                self.rep["validated"] += 1
                return True
            last = (jsonable(inputs), why)
            blk = [v != model.eval(v, model_completion=True) for v in self.inputs]
            if not blk:
                break
            forms = forms + [z3.Or(*blk)]
            r, model = solve(forms, stats=self.stats, seed=self.seed + 1 + t)
            if r != "sat":
                break
        self.rep["validation_mismatch"].append(dict(case=self.name, inputs=last[0] if last else None, why=str(last[1])[:600] if last else ""))
        return False


def _eval_struct(x, env):
    import numpy as np
    if isinstance(x, SReal):
        return numeval(z3.simplify(x.e), env)
    if isinstance(x, SBool):
        return bool(numeval(z3.simplify(x.e), env))
    if isinstance(x, dict):
        return {k: _eval_struct(v, env) for k, v in x.items()}
    if isinstance(x, (list, tuple)):
        return [_eval_struct(v, env) for v in x]
    if isinstance(x, np.ndarray):
        return [_eval_struct(v, env) for v in x.tolist()]
    if isinstance(x, (np.floating, np.integer)):
        return x.item()
    return x


def _cmp_struct(a, b, rel, abs_tol):
    import numpy as np
    if isinstance(b, np.ndarray):
        b = b.tolist()
    if isinstance(a, dict):
        if not isinstance(b, dict) or set(a) != set(b):
            return False, f"keys {sorted(a)} vs {sorted(b) if isinstance(b, dict) else b}"
        for k in a:
            ok, why = _cmp_struct(a[k], b[k], rel, abs_tol)
            if not ok:
                return False, f"[{k}] {why}"
        return True, ""
    if isinstance(a, (list, tuple)):
        if not isinstance(b, (list, tuple)) or len(a) != len(b):
            return False, f"length {a} vs {b}"
        for i, (x, y) in enumerate(zip(a, b)):
            ok, why = _cmp_struct(x, y, rel, abs_tol)
            if not ok:
                return False, f"[{i}] {why}"
        return True, ""
    if isinstance(a, bool) or isinstance(b, (bool, np.bool_)):
        return (bool(a) == bool(b)), f"{a} vs {b}"
    if isinstance(a, (int, float)) and isinstance(b, (int, float, np.floating, np.integer)):
        a, b = float(a), float(b)
        if a != a or b != b:
            return (a != a and b != b), f"{a} vs {b}"
        if math.isinf(a) or math.isinf(b):
            return a == b, f"{a} vs {b}"
        return (abs(a - b) <= abs_tol + rel * max(abs(a), abs(b))), f"{a} vs {b}"
    return (a == b), f"{a!r} vs {b!r}"


def _has_uf(e):
    todo, seen = [e], set()
    while todo:
        t = todo.pop()
        if t.get_id() in seen:
            continue
        seen.add(t.get_id())
        if z3.is_app(t):
            if t.decl().kind() == z3.Z3_OP_UNINTERPRETED and t.num_args() > 0:
                return True
            todo.extend(t.children())
    return False


def func_info(fn):
    f = getattr(fn, "py_func", fn)
    f = getattr(f, "__func__", f)
    if isinstance(f, property):
        f = f.fget
    try:
        src = inspect.getsource(f)
        file = inspect.getsourcefile(f)
        line = inspect.getsourcelines(f)[1]
    except (OSError, TypeError):
        return dict(name=getattr(f, "__qualname__", repr(f)), where="?", sha256="?")
    return dict(name=getattr(f, "__qualname__", getattr(f, "__name__", "?")), where=f"{file}:{line}",
                sha256=hashlib.sha256(src.encode()).hexdigest()[:16])
