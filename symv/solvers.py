"""Second-opinion back end: cvc5 (python wheel 1.4.0) on the SMT-LIB2 text of a z3 query."""
from __future__ import annotations

import time

import z3

from . import engine as E


def to_smt2(forms):
    s = z3.Solver()
    forms = list(forms)
    s.add(*forms)
    s.add(*E._axioms(forms))
    txt = s.to_smt2()
    return "(set-logic ALL)\n" + txt


def cvc5_check(forms, timeout_ms=30000):
    import cvc5
    txt = to_smt2(forms)
    slv = cvc5.Solver()
    slv.setOption("tlimit-per", str(int(timeout_ms)))
    parser = cvc5.InputParser(slv)
    parser.setStringInput(cvc5.InputLanguage.SMT_LIB_2_6, txt, "q")
    sm = parser.getSymbolManager()
    res = "unknown"
    while True:
        cmd = parser.nextCommand()
        if cmd.isNull():
            break
        out = cmd.invoke(slv, sm)
        o = str(out).strip()
        if o in ("sat", "unsat", "unknown"):
            res = o
        elif o.startswith("(error"):
            return "unknown"
    return res
