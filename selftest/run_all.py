"""Engine self-tests: ./vcheck selftest   (exit 0 = all passed)"""
from __future__ import annotations

import math
import random
import sys

import numpy as np
import pandas as pd
import z3


def t_dfs_completeness():
    """a program with a known number of feasible paths"""
    from symv.engine import Engine
    from symv.proxies import real

    def prog():
        x, y = real("x"), real("y")
        n = 0
        if x > 0:
            n += 1
        if y > x:
            n += 2
        if x > 0 and y < 0 and y > x:  # infeasible conjunction on some paths
            n += 100
        return n
    paths = Engine().explore(prog)
    vals = sorted(p.value for p in paths)
    # (x>0, y<=x) forks once more on y<0; the conjunction x>0, y<0, y>x is infeasible and is never taken
    assert vals == [0, 1, 1, 2, 3], vals
    assert all(v < 100 for v in vals)


def t_proxies_vs_floats():
    from symv.proxies import numeval, lift, real
    from symv.engine import Engine
    rnd = random.Random(1)

    def prog():
        a, b, c = real("a"), real("b"), real("c")
        return (a + b * c - a / (b * b + 1)) * abs(c) + (a - b) ** 2
    p = Engine().explore(prog)
    assert len(p) == 1
    e = lift(p[0].value)
    for _ in range(200):
        a, b, c = (rnd.uniform(-5, 5) for _ in range(3))
        want = (a + b * c - a / (b * b + 1)) * abs(c) + (a - b) ** 2
        got = numeval(z3.simplify(e), dict(a=a, b=b, c=c))
        assert abs(got - want) <= 1e-9 * max(1, abs(want)), (got, want)


def t_quantile_model():
    from symv.carriers import symnp
    from symv.engine import Engine
    from symv.proxies import numeval, lift, real
    rnd = random.Random(2)
    for n in (2, 3, 4, 5, 7):
        for q in (0.05, 0.25, 0.5, 0.75, 0.95):
            def prog():
                return symnp.quantile([real(f"x{i}") for i in range(n)], q)
            paths = Engine().explore(prog)
            assert len(paths) == 1
            e = z3.simplify(lift(paths[0].value))
            for _ in range(40):
                xs = [rnd.uniform(-10, 10) for _ in range(n)]
                got = numeval(e, {f"x{i}": xs[i] for i in range(n)})
                want = float(np.quantile(xs, q))
                assert abs(got - want) <= 1e-9 * max(1, abs(want)), (n, q, got, want)


def t_groupby_sum_min_count():
    """group-wise / row-wise sums of symreal data honour min_count exactly as float data does"""
    from symv.engine import Engine
    from symv.proxies import numeval, lift, real
    from symv.symarray import SymArray, cells
    rnd = random.Random(5)
    for trial in range(30):
        n = 6
        mask = [[rnd.random() < 0.5 for _ in range(n)] for _ in range(2)]
        vals = [[rnd.uniform(-5, 5) for _ in range(n)] for _ in range(2)]
        mc = rnd.choice([0, 1, 2])
        idx = pd.date_range("2021-01-01", periods=n, freq="h")

        def prog():
            cols = {c: SymArray([float("nan") if mask[k][i] else real(f"{c}{i}") for i in range(n)]) for k, c in enumerate("ab")}
            df = pd.DataFrame(cols, index=idx)
            return cells(df.sum(axis=1, min_count=mc)), cells(df["a"].resample("3h").sum(min_count=mc))
        (path,) = Engine().explore(prog)
        env = {f"{c}{i}": vals[k][i] for k, c in enumerate("ab") for i in range(n)}
        fdf = pd.DataFrame({c: [np.nan if mask[k][i] else vals[k][i] for i in range(n)] for k, c in enumerate("ab")}, index=idx)
        want = list(fdf.sum(axis=1, min_count=mc)) + list(fdf["a"].resample("3h").sum(min_count=mc))
        got = [x if isinstance(x, float) else numeval(z3.simplify(lift(x)), env) for part in path.value for x in part]
        for g, w in zip(got, want):
            assert (g != g and w != w) or abs(g - w) < 1e-9, (trial, mc, got, want)


def t_symarray_reductions():
    from symv.engine import Engine
    from symv.proxies import numeval, lift, real, NAN
    from symv.symarray import SymArray
    rnd = random.Random(3)

    def prog():
        s = pd.Series(SymArray([real("a"), NAN, real("b"), real("c")]))
        return s.sum(), s.mean(), s.var(ddof=0), s.count(), (s * 2 + 1).sum()
    paths = Engine().explore(prog)
    assert len(paths) == 1
    for _ in range(50):
        a, b, c = (rnd.uniform(-3, 3) for _ in range(3))
        ref = pd.Series([a, np.nan, b, c])
        want = [ref.sum(), ref.mean(), ref.var(ddof=0), ref.count(), (ref * 2 + 1).sum()]
        got = [numeval(z3.simplify(lift(x)), dict(a=a, b=b, c=c)) if not isinstance(x, (int, float, np.integer, np.floating)) else float(x) for x in paths[0].value]
        for g, w in zip(got, want):
            assert abs(g - w) <= 1e-9 * max(1, abs(w)), (got, want)


def t_exp_axioms_sound():
    """every instantiated axiom is true for the real exponential on random points"""
    from symv.proxies import EXP, exp_axioms, numeval
    a, b = z3.Reals("a b")
    ax = exp_axioms([EXP(a) + EXP(b) > 0])
    rnd = random.Random(4)
    for _ in range(300):
        env = dict(a=rnd.uniform(-4, 4), b=rnd.uniform(-4, 4))
        for f in ax:
            assert numeval(f, env) in (True, 1), (f, env)


def t_symtime_nearest():
    from symv.engine import Engine
    from symv import symtime as T
    idx = pd.DatetimeIndex(pd.to_datetime(["2021-01-01", "2021-01-03", "2021-01-07"], utc=True))

    def prog():
        ts = [T.STime(z3.Int(f"t{i}")) for i in range(3)]
        return T.SIndex(ts, range(3)).get_indexer([T.STime(z3.Int("x"))], method="nearest")[0]
    eng = Engine(assume=[z3.Int("t0") < z3.Int("t1"), z3.Int("t1") < z3.Int("t2")])
    paths = eng.explore(prog)
    base = pd.Timestamp("2021-01-01", tz="UTC")
    from symv.engine import solve
    for p in paths:
        r, m = solve(p.pc + [z3.Int("t0") == 0, z3.Int("t1") == 2 * 86400, z3.Int("t2") == 6 * 86400, z3.Int("x") >= -86400 * 3, z3.Int("x") <= 86400 * 9])
        if r != "sat":
            continue
        x = m.eval(z3.Int("x"), model_completion=True).as_long()
        want = idx.get_indexer([base + pd.Timedelta(seconds=x)], method="nearest")[0]
        assert want == p.value, (x, want, p.value)


def main():
    tests = [t_dfs_completeness, t_proxies_vs_floats, t_quantile_model, t_symarray_reductions, t_groupby_sum_min_count, t_exp_axioms_sound, t_symtime_nearest]
    bad = 0
    for t in tests:
        try:
            t()
            print("ok  ", t.__name__)
        except Exception as ex:  # noqa
            bad += 1
            import traceback
            traceback.print_exc()
            print("FAIL", t.__name__, ex)
    return 1 if bad else 0


if __name__ == "__main__":
    sys.exit(main())
