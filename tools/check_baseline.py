#!/usr/bin/env python3
"""compare a junit xml of the repository's suite with /root/.vp/BASELINE.json stable_pass"""
import json, sys, xml.etree.ElementTree as ET
base = json.load(open("/root/.vp/BASELINE.json"))
want = set(base["stable_pass"])
t = ET.parse(sys.argv[1])
passed = set()
for tc in t.iter("testcase"):
    ok = not any(ch.tag in ("failure", "error", "skipped") for ch in tc)
    if ok:
        passed.add(f"{tc.get('classname')}::{tc.get('name')}")
missing = sorted(want - passed)
print(f"baseline stable_pass={len(want)} passed_now={len(passed)} missing={len(missing)} extra={len(passed - want)}")
for m in missing:
    print("  MISSING", m)
sys.exit(1 if missing else 0)
