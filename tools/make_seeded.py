#!/usr/bin/env python3
"""collects confirmed sub-agent mutants from /tmp/wt into /verif/seeded/<id>/ (patch.diff, demo.py, meta.json)"""
import glob, json, os, re, shutil, sys
ROOT = os.path.dirname(os.path.dirname(os.path.abspath(__file__)))
# changes that the check as it stood when the change arrived did NOT catch, and what was added (DESIGN 10.6)
STRENGTHENED = {
    "C04-m1": "persistfit cases (fit through the real _fit tail, then to_json/from_json)", "C07-m2": "billing-agg cases in C07",
    "C08-m2": "fall-35 calendar", "C11-m2": "singlerev cases (reversed stored documents)", "C13-m2": "carry variant of the routing cases",
    "C16-m2": "gate case in C16", "C20-m2": "tz-aware DST catalogue",
    "C01-m2": "split layouts (weekday/weekend, season) for every settings profile in the API round trip",
    "C02-m1": "series/* cases (from_series with Series/DataFrame, conventional/other labels, other timezone)",
    "C02-m2": "accessor/billing_df case", "C05-m1": "history/* cases (4 predict calls on one model object)",
    "C05-m2": "dataclass/daily/elec case (hourly electricity feed through DailyReportingData)", "C06-m2": "inf cell state in part (a)",
    "C10-m2": "temperature NaN states in frame/negative", "C19-m1": "zones east of UTC in the aggregation cases",
    "C01-m4": "hourly/stored case (hourly family was outside C01)", "C02-m3": "interleave/* cases (fit of another model object)",
    "C02-m4": "hourly-data/ctor case", "C04-m4": "zones with the same winter offset (Denver/Phoenix) in the timezone catalogue",
    "C05-m3": "hourly/* cases (symbolic usage readings through the real HourlyModel._predict)", "C06-m3": "sub-model layouts in part (a)",
    "C06-m4": "span with an absent calendar day before the transition day in part (b)", "C09-m4": "a 25-hour day in the quick tier",
    "C10-m3": "frame/edges case", "C10-m4": "frame/hourly-sdf case", "C12-m3": "*/bounds lemma on the real bound-update functions",
    "C12-m4": "tidd/uncertainty case", "C16-m4": "NaN states for predicted in reporting/*", "C18-m3": "second call with the caller's endpoint list",
    "C19-m4": "own symbols for the data object's usage column",
}
NOTES = {"C06-m4": "patch rebased onto the repaired _get_dst_indices (commit 79324c4b changed the lines it touches); the sub-agent's original diff is kept as original_base.diff"}
rows = []
for diff in sorted(glob.glob("/tmp/wt/C*.mut*.diff")):
    m = re.match(r"/tmp/wt/(C\d+)\.mut(\d+)\.diff", diff)
    P, N = m.group(1), m.group(2)
    va = f"/tmp/wt/{P}.mut{N}.verifyA.txt"
    if not os.path.exists(va):
        continue
    a = open(va).read()
    if "demo on original tree: exit 0" not in a or "demo on mutated tree: exit 1" not in a or "missing=0" not in a:
        print("not confirmed:", P, N)
        continue
    sid = f"{P}-m{N}"
    d = os.path.join(ROOT, "seeded", sid)
    os.makedirs(d, exist_ok=True)
    shutil.copy(diff, os.path.join(d, "patch.diff"))
    shutil.copy(f"/tmp/wt/{P}.mut{N}_demo.py", os.path.join(d, "demo.py"))
    desc = open(f"/tmp/wt/{P}.mut{N}.txt").read().strip() if os.path.exists(f"/tmp/wt/{P}.mut{N}.txt") else ""
    checks = {}
    for vb in sorted(glob.glob(f"/tmp/wt/{P}.mut{N}.verifyB.*.txt")):
        c = vb.split(".verifyB.")[1].split(".")[0]
        t = open(vb).read()
        ex = re.search(r"check \S+ exit (\d+)", t)
        nv = re.search(r"VIOLATION lines: (\d+)", t)
        first = re.search(r"obligation=(.*)", t)
        checks[c] = dict(exit=int(ex.group(1)) if ex else None, violation_lines=int(nv.group(1)) if nv else 0,
                         first_obligation=first.group(1)[:200] if first else None)
    meta = dict(id=sid, breaks_property=P, source="independent sub-agent given only the property text and a scratch worktree",
                description=desc, needs_to_manifest=desc,
                confirmed=dict(demo_on_original="exit 0", demo_on_mutant="exit 1", baseline_suite="208/208 stable tests pass (missing=0)",
                               how="tools/verify_mutant_a.sh in a scratch worktree under /tmp/wt; check run by tools/verify_mutant_b.sh with the patch applied to /repo and reverted afterwards"),
                caught=("after strengthening: + " + STRENGTHENED[sid]) if sid in STRENGTHENED else "by the check as built",
                checks=checks, detected=any(v["exit"] == 1 and v["violation_lines"] > 0 for v in checks.values()))
    if sid in NOTES:
        meta["note"] = NOTES[sid]
        ob = f"/tmp/wt/{P}.mut{N}.original_base.diff"
        if os.path.exists(ob):
            shutil.copy(ob, os.path.join(d, "original_base.diff"))
    json.dump(meta, open(os.path.join(d, "meta.json"), "w"), indent=1)
    rows.append((sid, P, {c: (v["exit"], v["violation_lines"]) for c, v in checks.items()}, meta["detected"]))
for r in rows:
    print(r)
