#!/bin/sh
# run every claimed check's thorough tier once, sequentially; prints one line per check
# usage: tools/thorough_sweep.sh [ids...]   (VERIF_OUT_DIR may redirect evidence/replays)
cd "$(dirname "$0")/.."
IDS="${*:-C14 C13 C04 C01 C18 C19 C16 C10 C20 C09 C08 C06 C05 C02 C11 C12 C07}"
for id in $IDS; do
  s=$(date +%s)
  ./vcheck $id --tier thorough > sweep_$id.log 2>&1
  rc=$?
  e=$(date +%s)
  echo "SWEEP $id exit=$rc wall=$((e-s))s $(tail -1 sweep_$id.log | cut -c1-300)"
done
echo SWEEPDONE
