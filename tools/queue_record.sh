#!/bin/bash
# recorded screening run of a seeded change with the committed checks: full quick check of its property against a scratch
# worktree of /repo HEAD with the patch applied (PYTHONPATH), output kept in /verif/seeded/<id>/verifyW.txt
cd /verif
for id in "$@"; do
  [ -s seeded/$id/verifyW.txt ] && continue
  tools/mutant.sh W $id > /tmp/wt/$id.WF.out 2>&1
  { echo "verif commit: $(git -C /verif rev-parse --short HEAD)  repo commit: $(git -C /repo rev-parse --short HEAD)"; cat /tmp/wt/$id.WF.out; } > seeded/$id/verifyW.txt
  echo "WF $id: $(sed -n 1,2p /tmp/wt/$id.WF.out | tr '\n' ' ')"
done
echo QFINAL-DONE
