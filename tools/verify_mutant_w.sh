#!/bin/bash
# screening (parallelisable, does not touch /repo): run a property's check against a mutant in a scratch worktree.
# usage: verify_mutant_w.sh <PROP> <N> [CHECKPROP] [extra vcheck args]   (the recorded result is still phase B against /repo)
P=$1; N=$2; C=${3:-$1}; shift; shift; shift
DIFF=/tmp/wt/$P.mut$N.diff; OUT=/tmp/wt/$P.mut$N.verifyW.$C.txt
WT=/tmp/wt/w_${P}_$N
: > $OUT
git -C /repo worktree add -q --detach $WT HEAD || { echo "worktree failed" >> $OUT; exit 2; }
( cd $WT && git apply $DIFF ) || { echo "apply failed" >> $OUT; git -C /repo worktree remove --force $WT; exit 2; }
mkdir -p /tmp/wt/out_${P}_$N
cd /verif && ( PYTHONPATH=$WT VERIF_OUT_DIR=/tmp/wt/out_${P}_$N timeout 3000 ./vcheck $C "$@" > /tmp/wt/$P.mut$N.checkW.$C.log 2>&1; echo "check $C exit $?" >> $OUT )
git -C /repo worktree remove --force $WT
grep -c "^VIOLATION" /tmp/wt/$P.mut$N.checkW.$C.log | sed 's/^/VIOLATION lines: /' >> $OUT
grep "^VIOLATION" -A2 /tmp/wt/$P.mut$N.checkW.$C.log | head -6 | cut -c1-400 >> $OUT
tail -1 /tmp/wt/$P.mut$N.checkW.$C.log | cut -c1-250 >> $OUT
