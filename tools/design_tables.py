#!/usr/bin/env python3
"""rewrites the wave-4/5 tables of DESIGN.md 10.6 (between the two markers) from seeded/*/meta.json"""
import glob, json, os, re
ROOT = os.path.dirname(os.path.dirname(os.path.abspath(__file__)))
metas = {}
for f in glob.glob(os.path.join(ROOT, "seeded", "*", "meta.json")):
    m = json.load(open(f))
    metas[m["id"]] = m
def rows(sel):
    out = []
    for sid in sorted(metas):
        if not sel(sid):
            continue
        m = metas[sid]
        if "needs_to_manifest" not in m or "check" not in m:
            continue
        c = "as built" if m["caught"].startswith("by the check") else "after + " + m["caught"].split("+ ", 1)[1]
        first = (m["check"].get("first_obligation") or "-")[:105]
        det = "" if m.get("detected") else " **(not detected)**"
        out.append(f"| {sid} | {m['needs_to_manifest']} | {c}{det} | {first} |")
    return out
w4 = rows(lambda s: s.endswith(("-m5", "-m6")) or s == "C02-m4")
w5 = rows(lambda s: s.endswith(("-m7", "-m8")))
W8 = {"C11-m9", "C11-m10", "C20-m9", "C20-m10", "C16-m11", "C16-m12"}
w6 = rows(lambda s: s.endswith(("-m9", "-m10")) and s not in W8)
W9 = {"C12-m11", "C12-m12", "C04-m11", "C04-m12", "C08-m11", "C08-m12"}
w7 = rows(lambda s: s.endswith(("-m11", "-m12")) and s not in W8 and s not in W9)
w8 = rows(lambda s: s in W8)
w9 = rows(lambda s: s in W9)
def count(rs):
    return sum("| as built" in r and "(not detected)" not in r for r in rs), len(rs)
a4, n4 = count(w4); a5, n5 = count(w5); a6, n6 = count(w6); a7, n7 = count(w7); a8, n8 = count(w8); a9, n9 = count(w9)
nd = [s for s, m in metas.items() if "check" in m and not m.get("detected")]
block = f"""<!-- seeded-tables-begin -->
**Wave 4** ({n4} changes incl. the recreated C02-m4, two per claimed property, numbered m5/m6). "as built" = the checks as
committed at the start of session 3 (`3bbd609`); the recorded run is the property's quick check, committed checks, against a
scratch worktree of /repo HEAD with the patch applied (`seeded/<id>/verifyW.txt`):

| change | what it needs to manifest | caught | first violated obligation |
|--------|---------------------------|--------|---------------------------|
""" + "\n".join(w4) + f"""

{a4} of {n4} as built, {n4 - a4} after the listed additions.

**Wave 5** ({n5} changes, m7/m8; the sub-agents were also given one-line summaries of all earlier changes). "as built" = the
checks as they stood when the change arrived, i.e. after the wave-4 additions:

| change | what it needs to manifest | caught | first violated obligation |
|--------|---------------------------|--------|---------------------------|
""" + "\n".join(w5) + f"""

{a5} of {n5} as built, {n5 - a5} after the listed additions.

**Wave 6** ({n6} changes, m9/m10, for the ten properties with the lowest as-built rates in waves 4 and 5):

| change | what it needs to manifest | caught | first violated obligation |
|--------|---------------------------|--------|---------------------------|
""" + "\n".join(w6) + f"""

{a6} of {n6} as built, {n6 - a6} after the listed additions.

**Wave 7** ({n7} changes, m11/m12, for C01, C07, C13, C18, C19; the sub-agents were given the property text and one-line
summaries of the earlier changes to that property, nothing from /verif):

| change | what it needs to manifest | caught | first violated obligation |
|--------|---------------------------|--------|---------------------------|
""" + "\n".join(w7) + f"""

{a7} of {n7} as built, {n7 - a7} after the listed additions.

**Wave 8** ({n8} changes for C11, C16, C20, same briefing as wave 7):

| change | what it needs to manifest | caught | first violated obligation |
|--------|---------------------------|--------|---------------------------|
""" + "\n".join(w8) + f"""

{a8} of {n8} as built, {n8 - a8} after the listed additions.

**Wave 9** ({n9} changes for C04, C08, C12, same briefing, 12-minute budget per sub-agent):

| change | what it needs to manifest | caught | first violated obligation |
|--------|---------------------------|--------|---------------------------|
""" + "\n".join(w9) + f"""

{a9} of {n9} as built. Not detected by the committed checks: {nd or 'none'}.
<!-- seeded-tables-end -->"""
p = os.path.join(ROOT, "DESIGN.md")
s = open(p).read()
s = re.sub(r"<!-- seeded-tables-begin -->.*?<!-- seeded-tables-end -->", lambda m: block, s, flags=re.S)
open(p, "w").write(s)
print(a4, n4, a5, n5, nd)
