#!/usr/bin/env python3
"""Generates /verif/MANIFEST.json from the table below (kept in one place so it always validates)."""
import json, os, sys
ROOT = os.path.dirname(os.path.dirname(os.path.abspath(__file__)))

TECH = "bounded symbolic execution of the real Python functions on z3 proxies; one SMT query (z3, cvc5 fallback) per obligation and path; counterexamples replayed on the unpatched code; a sample of the discharged obligations re-decided by cvc5"

CHECKS = {
 "C11": dict(
   text="For every admissible coefficient vector of each of the 7 stored shapes and every temperature (unbounded reals, 1-2 evaluation points) the solver shows: flat segment, closed-form line/smoothed curve, monotonicity, Lipschitz continuity with the fitted slopes, load sign/exclusivity/additivity - on every execution path of the real _predict_submodel/get_full_model_x/fix_full_model_x/get_smooth_coeffs/full_model code. Bounded only in the number of simultaneous evaluation points; stronger than any temperature sweep because balance-point ties and bound-hitting coefficient orderings are solver-chosen.",
   note="floats modelled as reals (witnesses replayed in float64 on the jitted kernels); exp uninterpreted with sound axioms; numba assumed to compile the kernels faithfully; admissible domain = harness/dailyref.domain; known finding C11-bp-at-Tmax excluded by region.",
   ref="DESIGN.md 3 C11"),
}

NA = {}
PENDING = {}

def main():
    props = [json.loads(l) for l in open(os.path.join(ROOT, "properties.jsonl"))]
    sys.path.insert(0, ROOT)
    from tools.manifest_table import CHECKS as C2, NA as NA2
    checks = []
    for p in props:
        pid = p["id"]
        if pid in C2:
            c = C2[pid]
            checks.append(dict(
                property_id=pid,
                quick_cmd=f"./vcheck {pid} --tier quick",
                thorough_cmd=f"./vcheck {pid} --tier thorough",
                evidence_file=f"/verif/evidence/{pid}.json",
                replay_cmd_template="./vcheck replay {path}",
                engine="symv",
                level_claimed=dict(category="other", text=c["text"], design_ref=c["ref"]),
                level_note=c["note"],
                technique=c.get("technique", TECH),
            ))
    na = [dict(property_id=p["id"], reason=NA2[p["id"]]) for p in props if p["id"] not in C2]
    man = dict(
        version=1,
        setup_cmd="sh ./setup.sh",
        hooks=dict(guard="OPENDSM_EEMETER_VERIF", enable="no source hooks are needed: harnesses construct their inputs directly; vcheck exports OPENDSM_EEMETER_VERIF=1 for uniformity",
                   baseline_off_cmd="cd /repo && env -u OPENDSM_EEMETER_VERIF /venv/bin/python -m pytest -ra -q -p no:cacheprovider --timeout=900 --continue-on-collection-errors",
                   source_commits=[], add_only=True),
        engines=[dict(name="symv", path="/verif/symv", serves_properties=[c["property_id"] for c in checks],
                      kind_free_text="symbolic executor for ordinary Python callables: z3-backed proxy numbers + object-dtype numpy arrays + a pandas ExtensionArray + de-jitted numba kernels; DFS over branch decisions with z3 feasibility; per-path SMT obligations; replay of every counterexample on the unpatched code")],
        checks=checks,
        not_applicable=na,
        notes="Exit codes of every check: 0 held / known findings only; 1 VIOLATION (replayed on the real code); 2 inconclusive (solver unknown); 3 harness error. See DESIGN.md.",
    )
    with open(os.path.join(ROOT, "MANIFEST.json"), "w") as f:
        json.dump(man, f, indent=1)
    import jsonschema
    jsonschema.validate(man, json.load(open("/root/.vp/MANIFEST.schema.json")))
    print("MANIFEST.json written:", len(checks), "checks,", len(na), "not applicable")

if __name__ == "__main__":
    main()
