#!/bin/bash
# phase B (sequential, uses /repo): run the property's quick check against the mutant.  usage: verify_mutant_b.sh <PROP> <N> [CHECKPROP]
P=$1; N=$2; C=${3:-$1}
DIFF=/tmp/wt/$P.mut$N.diff; OUT=/tmp/wt/$P.mut$N.verifyB.$C.txt
: > $OUT
cd /repo && git apply $DIFF || { echo "apply failed" >> $OUT; exit 2; }
cd /verif && ( timeout 3000 ./vcheck $C > /tmp/wt/$P.mut$N.check.$C.log 2>&1; echo "check $C exit $?" >> $OUT )
git -C /repo checkout -- . ; git -C /repo status --short | head -3 >> $OUT
grep -c "^VIOLATION" /tmp/wt/$P.mut$N.check.$C.log | sed 's/^/VIOLATION lines: /' >> $OUT
grep "^VIOLATION" -A2 /tmp/wt/$P.mut$N.check.$C.log | head -6 | cut -c1-400 >> $OUT
tail -1 /tmp/wt/$P.mut$N.check.$C.log | cut -c1-250 >> $OUT
