#!/bin/bash
# ad-hoc mutation: tools/adhoc.sh <file-relative-to-repo> <python-regex> <replacement> CHECK [vcheck args]   (scratch worktree, /repo untouched)
F=$1; PAT=$2; REP=$3; C=$4; shift 4
WT=/tmp/wt/adhoc_$$; mkdir -p /tmp/wt
git -C /repo worktree add -q --detach $WT HEAD || exit 2
python3 - "$WT/$F" "$PAT" "$REP" <<'PY'
import re,sys
p,pat,rep=sys.argv[1:4]
s=open(p).read(); t,n=re.subn(pat,rep,s)
print("substitutions:",n)
open(p,'w').write(t)
PY
git -C $WT diff --stat | tail -1
mkdir -p $WT.out
( cd /verif && PYTHONPATH=$WT VERIF_OUT_DIR=$WT.out timeout 3000 ./vcheck $C "$@" 2>&1 | grep -v "expected regime not reached" | grep -E "^VIOLATION|obligation=|detail=|^\[C|HARNESS|INCONCL" | cut -c1-300 | head -${ADHOC_LINES:-14} )
git -C /repo worktree remove --force $WT; rm -rf $WT.out
