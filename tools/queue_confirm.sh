#!/bin/bash
cd /verif
for id in "$@"; do tools/mutant.sh A $id > /tmp/wt/$id.A7.out 2>&1; echo "A7 $id: $(grep -v WARNING /tmp/wt/$id.A7.out | tail -3 | tr '\n' ' ' | cut -c1-300)" >> /tmp/wt/queueA7.log; done
echo A7DONE >> /tmp/wt/queueA7.log
