"""Per-property claim texts for MANIFEST.json (edited by hand; tools/gen_manifest.py renders it)."""

CHECKS = {
 "C02": dict(
   text="Narrow claim. The real DailyBaselineData constructor runs end-to-end on symbolic frames (incl. the electricity zero->NaN path reached by the solver choosing the value 0): caller's frame cell-identical afterwards, .df hands out independent copies. DailyModel.predict/BillingModel.predict(aggregated) on symbolic frames: data object's frame and stored parameters unchanged; predict(A) after predict(B) term-identical to a fresh twin (2-call history). fit()/predict() wrappers of the three families (numerics stubbed): the data object's warnings/disqualification lists are the same objects with the same content afterwards for every metric value.",
   note="hourly model state (sklearn scalers, ElasticNet, temporal-cluster table) and hourly data classes cannot carry symbolic values: outside the claim, as are histories longer than two calls.",
   ref="DESIGN.md 3 C02"),
 "C08": dict(
   text="The real data classes (DailyBaselineData; BillingBaselineData.from_series) and downsample_and_clean_daily_data run end-to-end (as_freq through 1-minute atoms, clean_billing_data, compute_minimum_granularity) on symbolic readings: every non-final local day equals the sum of its readings (15/30/60-minute, 23-hour DST day), a day covered > 1/2 is scaled by 1/coverage, <= 1/2 is missing (solver-chosen layouts incl. exactly half), daily readings pass through, every valid billing period's daily values add up to the billed amount and off-cycle periods are dropped. Sums are decided as linear identities with extracted rational coefficients (tolerance 1e-9 on each coefficient).",
   note="calendars/zones enumerated; usage values and missing layout solver-quantified; final day/period excluded as the property states; known finding C08-offcycle-dst excluded by region.",
   ref="DESIGN.md 3 C08"),
 "C09": dict(
   text="The real DailyBaselineData constructor and from_series (UTC feed vs local meter) run end-to-end on symbolic hourly and half-hourly temperature feeds over a DST day: each meter day's temperature equals the mean of its non-missing readings for every value, and is missing exactly when half or fewer readings are present (solver-chosen layouts none/1/half-1/half/half+1).",
   note="feeds/offsets/zones enumerated; meters whose day starts at another hour and the billing data class are not covered; known finding C09-final-reading-dropped (last day) excluded by region.",
   ref="DESIGN.md 3 C09"),
 "C10": dict(
   text="Count-based criteria (span 329-365, three 90% rules) and the six baseline/reporting drivers run on criteria objects whose day counts are symbolic ints: reported disqualifications == exactly the violated criteria for all counts; frame-based computations (_compute_valid_meter_temperature_days with day_counts, negative usage, no_data, monthly coverage, extreme values) run on real frames with symbolic cells / solver-chosen NaN states; real constructors accept a catalogue of well-formed daily frames with the expected verdicts; thorough: QF_FP lemma k/n<0.9 <=> 10k<9n.",
   note="frame-based checks are stubs (free booleans) in the driver cases; acceptance of arbitrary frames is an enumerated catalogue; frequency detection and extreme values on year-long data outside the claim.",
   ref="DESIGN.md 3 C10"),
 "C14": dict(
   text="The repository's Python validators run on model_construct'ed settings trees with symbolic/alternative field values: the developer-mode lock rejects <=> developer_mode off and some developer field (top level or nested) differs, for every developer field of the daily/legacy/billing trees one at a time and all numeric fields at once; every cross-field validator (alpha_final, final_bounds_scalar, initial_step_percentage, reduce_splits_num_std, season/weekday maps, temperature bins, edge bins, adaptive weights) rejects exactly the documented combinations. Concretely: default objects equal the pinned approved-constants table and a 200-call constructor catalogue (each developer field, key case/whitespace variants, dict input, developer_mode on/off).",
   note="pydantic-core (ge/le/enum/normalisation) is only exercised concretely; oracles/approved_constants.json is a regression oracle captured at the pinned commit.",
   ref="DESIGN.md 3 C14"),
 "C16": dict(
   text="BaselineMetrics/ColumnMetrics computed fields, _safe_divide, ReportingMetrics and DailyModel._get_error_metrics run on symbolic observed/predicted columns with solver-chosen NaN states (2-3 rows, thorough 4) and a symbolic parameter count: n, sse, mae, mbe, rmse^2*n==sse, rmse_adj^2*ddof==sse, ddof=max(n-p,1), n'=n(1-rho)/(1+rho), r2=corr^2, adjusted r2, every ratio field (value*den==num when the denominator is safely positive, undefined otherwise), savings and the ASHRAE-14 uncertainty formula.",
   note="pandas autocorr/corr and scipy t quantile are contract stubs (fresh symbols); skew/kurtosis not evaluated; known finding C16-safe-divide excluded by region.",
   ref="DESIGN.md 3 C16"),
 "C18": dict(
   text="compute_temperature_bin_features with symbolic temperature and k<=4 (6) symbolic endpoints: bins sum to T and fill in order up to their width, NaN stays NaN; the fit/prediction feature processors with symbolic T, both occupancy modes and all 64 subsets of the candidate endpoints: the active mode's bins sum to T, the other mode's are zero; segment weights for every month (first/last local hour, 3 zones, 4 segmentation types) and the month->fitted-segment mapping; the real CalTRACKHourlyModel.predict with stub segment models returning symbols: each hour predicted only by its own month's model across every month boundary; hour_of_week for all 168 values.",
   note="CalTRACKSegmentModel.predict (patsy/statsmodels) is outside the claim; months/zones/hours are finite domains enumerated by solver forks.",
   ref="DESIGN.md 3 C18"),
 "C20": dict(
   text="The real get_baseline_data/get_reporting_data run on a series whose n<=4 (6) labels are symbolic strictly increasing instants, with symbolic values/NaN states, cut instant, max_days, overshoot tolerance and every option combination: contiguous own-copy slice, no row beyond the cut, max_days window (gap-adjusted) respected, nearest-boundary rule with ties, values unchanged except the blanked final row, input untouched, gap warnings, dedicated error for empty/all-NaN selections. Every explored path's witness is run through the real functions on real pandas and must agree with the shim (6.9k paths validated).",
   note="pandas label slicing/get_indexer/index.min/max/dropna/iloc are modelled by symv/symtime.py (validated per path); timezone handling not modelled; known findings C20-gap-not-reported and C20-overshoot-without-max_days.",
   ref="DESIGN.md 3 C20"),
 "C01": dict(
   text="Solver shows, for every coefficient vector of each of the 7 stored shapes, every temperature limit set and every temperature (inside and outside the fitted range), that DailyModel._predict_submodel (inherited unchanged by BillingModel) equals the documented piecewise formula evaluated from the JSON fields alone, that predicted_unc is the stored f_unc, that the vector form round-trips (from_np_arrays(to_np_array)), and that the segment limits influence the result only through the documented end-pinning. At every path witness the public API (DailyModel/BillingModel from_dict -> to_json -> from_json) is additionally exercised concretely: identical document, bit-identical predictions, timezone/warnings/disqualifications kept.",
   note="pydantic-core validation/serialisation and json float repr are C-level: exercised concretely per path witness, not quantified; hourly and CalTRACK-hourly families and settings profiles are outside the claim; floats modelled as reals; known finding C11-bp-at-Tmax excluded by region.",
   ref="DESIGN.md 3 C01"),
 "C04": dict(
   text="The real fit()/predict() wrappers of DailyModel, BillingModel and HourlyModel and HourlyModel._model_fit_is_acceptable are executed on every combination of data-object class, disqualification-list length (0..2), override flag, fitted flag, timezone pair, GHI configuration (solver-enumerated forks) and on symbolic CVRMSE / cvrmse_adj / pnrmse_adj (incl. None) and thresholds; the solver shows the refusal/acceptance verdict and the poor-fit disqualification are exactly the stated ones. Persistence of stored disqualifications through to_json/from_json is checked concretely for daily and billing.",
   note="_fit/_adaptive_fit/_predict are stubs returning fresh symbols (whether the numerical fit succeeds is outside the claim); data objects are shells of the real classes; hourly SerializeModel storage outside the claim.",
   ref="DESIGN.md 3 C04"),
 "C05": dict(
   text="Self-composition inside one symbolic path: the real DailyModel._predict (with _initialize_data, _meter_segment, _predict_submodel, kernels) runs on a temperature-only frame and on the same temperatures with an arbitrary observed column (own values, own NaN mask, solver-chosen); every prediction, load, uncertainty and split label produced with usage is proven term-equal to the temperature-only one, for all values, on 4 split layouts and several tz-aware indexes; BillingModel monthly aggregation is compared for two observed columns sharing a NaN mask.",
   note="rows bounded (2-4); coefficients of the stored model concrete; hourly (sklearn) and CalTRACK hourly (patsy) outside the claim.",
   ref="DESIGN.md 3 C05"),
 "C06": dict(
   text="(a) DailyModel._predict on tz-aware daily indexes around every DST transition of the zone catalogue with symbolic values/NaN states: output index == input index, chronological, prediction finite exactly where temperature (and usage) is present. (b) _get_dst_indices + HourlyModel._get_feature_matrices(correct_dst) + _transform_dst executed on hourly indexes around each transition (transition day first/middle/last of the span) with symbolic feature and prediction vectors: 24 slots per day, slot s holds the hour whose wall clock is s, inverse mapping returns one prediction per real hour (skipped hour absent, repeated hour twice) - shown for all values.",
   note="zones/transitions are an enumerated catalogue executed through pytz/pandas (not solver-quantified): quick 6 zones x 2021, thorough 18 zones x 2000-2037; finiteness of hourly predictions (sklearn) outside the claim; fractional-hour shifts outside (b).",
   ref="DESIGN.md 3 C06"),
 "C07": dict(
   text="The real DailyModel._predict is executed on frames whose temperature/observed cells are symbolic and whose state (value / NaN / +inf; usage column present or absent) is chosen by the solver for every row: per row predicted present <=> observed present, missing temperature => consumption masked, missing consumption => no prediction, observed values unchanged, and sum(observed)-sum(predicted) equals the row-wise sum, for every value and every pattern on 3 (thorough 4) rows, several split layouts and indexes (DST day, gap, unsorted).",
   note="rows bounded; a cell has a value iff finite; stored model coefficients concrete; billing aggregation is C19.",
   ref="DESIGN.md 3 C07"),
 "C12": dict(
   text="The optimiser is a nondeterministic stub returning ANY vector of its box; for every such vector and every baseline temperature the solver compares the curve the objective scored (evaluate_hdd_tidd_cdd_smooth/_hdd_tidd_cdd/_c_hdd_tidd(_smooth)/_tidd) with OptimizedResult.eval of the kept coefficients and with DailyModel._predict_submodel of the named coefficients, and shows the stored coefficients are admissible for their declared shape (ordering, range, slope signs, non-zero declared slopes, smoothing >= 0, intercept in its box, type <-> coefficients present, key/name consistent) on every path of _set_model_key/_refine_model/reduce_model/get_k/get_full_model_x/fix_full_model_x/from_np_arrays.",
   note="box contract stated in harness/c12.box; OptimizedResult.__init__ bypassed (acf, std, scipy t-quantile, np.partition not encodable): f_unc is a free non-negative symbol; what NLopt returns is outside the claim; known finding C12-H excluded by a 4-part region, all 4 parts shown necessary.",
   ref="DESIGN.md 3 C12"),
 "C13": dict(
   text="DailyModel._combinations is executed with the 5 split flags, the 4 ellipsoid verdicts and the 6 (season x day type) day counts symbolic: every candidate list on every path is shown to contain the unsplit model, to consist of exact covers of the 6 cells, and to use no split the flags/filter forbid or the counts cannot support (>= 30 days per separate season, >= 8 weekend days per component) for all count values. Routing: for all 84 (month, weekday) pairs under default and two custom maps, every one of the 48 candidate strings selects the day with exactly one component, the one of its season/day type. _best_combination returns the minimum criterion (first on ties) for all criterion values (k <= 4/6 candidates).",
   note="ellipsoid_split_filter and _combination_selection_criteria are stubs (free booleans / free reals); df_meter is a duck-typed stand-in for the three count expressions; NaN criteria outside the claim.",
   ref="DESIGN.md 3 C13"),
 "C19": dict(
   text="BillingModel.predict's aggregation block runs on pandas' real resample machinery with every daily value symbolic and solver-chosen NaN states: one row per calendar (bi)month, predicted/observed/heating/cooling = sum of member days, temperature = mean, uncertainty = root-sum-square, grand totals equal at daily/monthly/bi-monthly level, for all values on enumerated spans (month boundaries, gaps, partial months, DST, year end) and zones; argument catalogue: None-like -> daily, monthly/bimonthly accepted, anything else ValueError.",
   note="spans/timezones enumerated; DailyModel._predict stubbed by an arbitrary daily frame in the main cases and real in the composition case; sqrt modelled by s>=0, s*s==x.",
   ref="DESIGN.md 3 C19"),
 "C11": dict(
   text="For every admissible coefficient vector of each of the 7 stored shapes and every temperature (unbounded reals, 1-2 evaluation points) the solver shows: flat segment, closed-form line/smoothed curve, monotonicity, Lipschitz continuity with the fitted slopes, load sign/exclusivity/additivity - on every execution path of the real _predict_submodel/get_full_model_x/fix_full_model_x/get_smooth_coeffs/full_model code. Bounded only in the number of simultaneous evaluation points; stronger than any temperature sweep because balance-point ties and bound-hitting coefficient orderings are solver-chosen.",
   note="floats modelled as reals (witnesses replayed in float64 on the jitted kernels); exp uninterpreted with sound axioms; numba assumed to compile the kernels faithfully; admissible domain = harness/dailyref.domain; known finding C11-bp-at-Tmax excluded by region.",
   ref="DESIGN.md 3 C11"),
}

_NOT_BUILT = "check not built yet in this session (planned, see DESIGN.md 9)"
NA = {
 
 
 
 "C03": "reproducibility quantifies over process histories, thread counts, JIT caches and RNG state of NLopt/scikit-learn/BLAS behind FFI; none of that is a function of a symbolic input, so solver-based checking of the Python code cannot decide it (DESIGN.md 4)",
 "C15": "recovery of a generating curve is a statement about the optimum found by compiled NLopt DIRECT+SBPLX over a 365-point robust loss; with the optimiser as a nondeterministic stub the property is false by construction, and the optimiser itself cannot be encoded (DESIGN.md 4)",
 "C17": "every in-scope hourly input takes the autocorrelation interpolation path (numpy.ma, argpartition, pandas interpolate on float arrays) which cannot carry symbolic values; stubbing it leaves nothing of the property (DESIGN.md 4)",
}
