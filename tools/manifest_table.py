"""Per-property claim texts for MANIFEST.json (edited by hand; tools/gen_manifest.py renders it)."""

CHECKS = {
 "C11": dict(
   text="For every admissible coefficient vector of each of the 7 stored shapes and every temperature (unbounded reals, 1-2 evaluation points) the solver shows: flat segment, closed-form line/smoothed curve, monotonicity, Lipschitz continuity with the fitted slopes, load sign/exclusivity/additivity - on every execution path of the real _predict_submodel/get_full_model_x/fix_full_model_x/get_smooth_coeffs/full_model code. Bounded only in the number of simultaneous evaluation points; stronger than any temperature sweep because balance-point ties and bound-hitting coefficient orderings are solver-chosen.",
   note="floats modelled as reals (witnesses replayed in float64 on the jitted kernels); exp uninterpreted with sound axioms; numba assumed to compile the kernels faithfully; admissible domain = harness/dailyref.domain; known finding C11-bp-at-Tmax excluded by region.",
   ref="DESIGN.md 3 C11"),
}

_NOT_BUILT = "check not built yet in this session (planned, see DESIGN.md 9)"
NA = {
 "C01": _NOT_BUILT, "C02": _NOT_BUILT, "C04": _NOT_BUILT, "C05": _NOT_BUILT, "C06": _NOT_BUILT, "C07": _NOT_BUILT,
 "C08": _NOT_BUILT, "C09": _NOT_BUILT, "C10": _NOT_BUILT, "C12": _NOT_BUILT, "C13": _NOT_BUILT, "C14": _NOT_BUILT,
 "C16": _NOT_BUILT, "C18": _NOT_BUILT, "C19": _NOT_BUILT, "C20": _NOT_BUILT,
 "C03": "reproducibility quantifies over process histories, thread counts, JIT caches and RNG state of NLopt/scikit-learn/BLAS behind FFI; none of that is a function of a symbolic input, so solver-based checking of the Python code cannot decide it (DESIGN.md 4)",
 "C15": "recovery of a generating curve is a statement about the optimum found by compiled NLopt DIRECT+SBPLX over a 365-point robust loss; with the optimiser as a nondeterministic stub the property is false by construction, and the optimiser itself cannot be encoded (DESIGN.md 4)",
 "C17": "every in-scope hourly input takes the autocorrelation interpolation path (numpy.ma, argpartition, pandas interpolate on float arrays) which cannot carry symbolic values; stubbing it leaves nothing of the property (DESIGN.md 4)",
}
