#!/bin/bash
cd /verif
for id in "$@"; do tools/mutant.sh W $id > /tmp/wt/$id.W7.out 2>&1; echo "W7 $id: $(sed -n 1,2p /tmp/wt/$id.W7.out | tr '\n' ' ') $(grep -m1 obligation= /tmp/wt/$id.W7.out | cut -c1-140)"; done
echo Q7DONE
