#!/bin/bash
# phase A (parallelisable): confirm demo + suite in a scratch worktree.  usage: verify_mutant_a.sh <PROP> <N>
P=$1; N=$2
DIFF=/tmp/wt/$P.mut$N.diff; DEMO=/tmp/wt/$P.mut${N}_demo.py; OUT=/tmp/wt/$P.mut$N.verifyA.txt
WT=/tmp/wt/verify_${P}_$N
: > $OUT
git -C /repo worktree add -q --detach $WT HEAD || { echo "worktree failed" >> $OUT; exit 2; }
cd $WT
if ! git apply --check $DIFF 2>>$OUT; then echo "PATCH DOES NOT APPLY to current HEAD" >> $OUT; cd /; git -C /repo worktree remove --force $WT; exit 2; fi
PYTHONPATH=$WT /venv/bin/python $DEMO > /tmp/wt/$P.mut$N.demo_orig.log 2>&1; echo "demo on original tree: exit $?" >> $OUT
git apply $DIFF
PYTHONPATH=$WT /venv/bin/python $DEMO > /tmp/wt/$P.mut$N.demo_mut.log 2>&1; echo "demo on mutated tree: exit $?" >> $OUT
PYTHONPATH=$WT /venv/bin/python -m pytest -q -p no:cacheprovider --timeout=900 --continue-on-collection-errors --junitxml=/tmp/wt/$P.mut$N.junit.xml > /tmp/wt/$P.mut$N.pytest.log 2>&1
python3 /verif/tools/check_baseline.py /tmp/wt/$P.mut$N.junit.xml | head -3 >> $OUT
cd /; git -C /repo worktree remove --force $WT
