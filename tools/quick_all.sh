#!/bin/sh
# every claimed check's quick tier, sequentially, against /repo; one line per check
cd "$(dirname "$0")/.."
IDS="${*:-C14 C13 C04 C01 C18 C19 C16 C10 C20 C09 C08 C06 C05 C02 C11 C12 C07}"
for id in $IDS; do
  s=$(date +%s); VERIF_SEED=${VERIF_SEED:-1} ./vcheck $id --tier quick > /tmp/wt/quick_$id.log 2>&1; rc=$?; e=$(date +%s)
  echo "QUICK $id exit=$rc wall=$((e-s))s $(tail -1 /tmp/wt/quick_$id.log | cut -c1-250)"
done
echo QUICKDONE
