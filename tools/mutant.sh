#!/bin/bash
# seeded-change tooling; everything is keyed by /verif/seeded/<id>/{patch.diff,demo.py}
#   tools/mutant.sh A <id>                 confirm: demo exits 0 on HEAD, 1 with the patch; baseline suite still passes (scratch worktree)
#   tools/mutant.sh W <id> [CHECK] [args]  screening: run ./vcheck CHECK against a scratch worktree with the patch (does not touch /repo)
#   tools/mutant.sh B <id> [CHECK] [args]  recorded run: apply to /repo, run ./vcheck CHECK, revert (sequential only!)
set -u
M=$1; ID=$2; P=${ID%%-*}; C=${3:-$P}; shift; shift; [ $# -gt 0 ] && shift
D=/verif/seeded/$ID; S=/tmp/wt; mkdir -p $S
case $M in
A)
  WT=$S/vA_$ID; OUT=$D/verifyA.txt; : > $OUT
  git -C /repo worktree add -q --detach $WT HEAD || { echo "worktree failed" >> $OUT; exit 2; }
  cd $WT
  if ! git apply --check $D/patch.diff 2>>$OUT; then echo "PATCH DOES NOT APPLY to current HEAD" >> $OUT; cd /; git -C /repo worktree remove --force $WT; cat $OUT; exit 2; fi
  PYTHONPATH=$WT timeout 900 /venv/bin/python $D/demo.py > $S/$ID.demo_orig.log 2>&1; echo "demo on original tree: exit $?" >> $OUT
  git apply $D/patch.diff
  PYTHONPATH=$WT timeout 900 /venv/bin/python $D/demo.py > $S/$ID.demo_mut.log 2>&1; echo "demo on mutated tree: exit $?" >> $OUT
  PYTHONPATH=$WT /venv/bin/python -m pytest -q -p no:cacheprovider --timeout=900 --continue-on-collection-errors -n 5 --junitxml=$S/$ID.junit.xml > $S/$ID.pytest.log 2>&1
  python3 /verif/tools/check_baseline.py $S/$ID.junit.xml | head -3 >> $OUT
  cd /; git -C /repo worktree remove --force $WT; cat $OUT ;;
W)
  WT=$S/vW_${ID}_${C}_$$; OUT=$S/$ID.verifyW.$C.$$.txt; : > $OUT
  git -C /repo worktree add -q --detach $WT HEAD || { echo "worktree failed" >> $OUT; exit 2; }
  ( cd $WT && git apply $D/patch.diff ) || { echo "apply failed" >> $OUT; git -C /repo worktree remove --force $WT; exit 2; }
  mkdir -p $S/out_${ID}_${C}_$$
  cd /verif && ( PYTHONPATH=$WT VERIF_OUT_DIR=$S/out_${ID}_${C}_$$ timeout 3000 ./vcheck $C "$@" > $S/$ID.checkW.$C.$$.log 2>&1; echo "check $C exit $?" >> $OUT )
  git -C /repo worktree remove --force $WT; rm -rf $S/out_${ID}_${C}_$$
  grep -c "^VIOLATION" $S/$ID.checkW.$C.$$.log | sed 's/^/VIOLATION lines: /' >> $OUT
  grep "^VIOLATION" -A2 $S/$ID.checkW.$C.$$.log | head -6 | cut -c1-400 >> $OUT
  tail -1 $S/$ID.checkW.$C.$$.log | cut -c1-250 >> $OUT; cat $OUT ;;
B)
  OUT=$D/verifyB.$C.txt; : > $OUT
  [ -z "$(git -C /repo status --short)" ] || { echo "/repo not clean" ; exit 2; }
  cd /repo && git apply $D/patch.diff || { echo "apply failed" >> $OUT; exit 2; }
  mkdir -p $S/outB_$ID
  cd /verif && ( VERIF_OUT_DIR=$S/outB_$ID timeout 3000 ./vcheck $C "$@" > $S/$ID.checkB.$C.log 2>&1; echo "check $C exit $?" >> $OUT )
  git -C /repo checkout -- . ; git -C /repo status --short | head -3 >> $OUT; rm -rf $S/outB_$ID
  grep -c "^VIOLATION" $S/$ID.checkB.$C.log | sed 's/^/VIOLATION lines: /' >> $OUT
  grep "^VIOLATION" -A2 $S/$ID.checkB.$C.log | head -6 | cut -c1-400 >> $OUT
  tail -1 $S/$ID.checkB.$C.log | cut -c1-250 >> $OUT; cat $OUT ;;
esac
