#!/usr/bin/env python3
"""meta.json for the seeded changes of waves 4 and 5 (and the recreated C02-m4) from what is kept next to each patch:
desc.txt (the sub-agent's description), verifyA.txt (demo on HEAD / with the patch, baseline suite), verifyW.txt (the
property's quick check, committed checks, against a scratch worktree of /repo HEAD with the patch applied).
Also prints the DESIGN.md table rows."""
import glob, json, os, re, sys
ROOT = os.path.dirname(os.path.dirname(os.path.abspath(__file__)))
# what each change needs in order to manifest (one line), and - where the checks as they stood when the change arrived did not
# catch it - what was added
NEEDS = {
 "C02-m4": ("HourlyReportingData(frame without a usage column): the constructor no longer copies the caller's frame (wave 3 change, recreated from the patch found applied to /repo)", None),
 "C01-m5": ("two model objects with different weekday maps in one process (calendar table hoisted to a class attribute)", "decoy model objects built before the API predictions"),
 "C01-m6": ("hourly model with a supplemental time-series column, store -> load -> store without a predict in between (from_dict no longer restores the feature list)", "hourly profile with a supplemental column in hourly/stored"),
 "C02-m5": ("two model objects loaded from the same stored dict, one of them fitted again (error dict taken over by reference)", "refit/* (two objects from one stored dict)"),
 "C02-m6": ("one model object fitted, used for a prediction, fitted again on another meter (expanded coefficient vector cached per split name)", "refit/* (one object fitted twice)"),
 "C04-m5": ("one model object fitted twice, good baseline then noisy one (error metrics cached per split)", "persistfit: the real _get_error_metrics and an earlier fit of the same object"),
 "C04-m6": ("a BillingReportingData object handed to a DailyModel (class hierarchy de-duplicated)", "data classes of another model family as foreign types"),
 "C05-m5": ("hourly reporting feed with missing temperature readings and little or no usage (gap-filling window chosen from the number of complete rows)", "hourly-data/gaps"),
 "C05-m6": ("a timestamp delivered twice, first without and then with a usage reading (duplicates resolved by completeness)", "dataclass/daily/dup"),
 "C06-m5": ("a repeated-hour day before a skipped-hour day in one frame (operations sorted by kind instead of position)", "t|two-events"),
 "C06-m6": ("hourly period whose last local day is a DST-change day (day padding by elapsed hours)", None),
 "C07-m5": ("predict() handed a DailyBaselineData object with a day without temperature (masking tied to the data-object type)", "public/* (predict() with every accepted data-object type)"),
 "C07-m6": ("negative usage on a day with a temperature (filtered from the modelled rows, not masked)", None),
 "C08-m5": ("a fully covered day or a valid bill whose usage sums to exactly 0 (empty bins re-nulled by replace(0, nan))", None),
 "C08-m6": ("15/30-minute readings with a gap edge off the clock hour (coverage counted in whole hours)", None),
 "C09-m5": ("meter read at another hour than midnight and a day without a usable meter value (missing days re-inserted at local midnight)", "series-06g"),
 "C09-m6": ("half-hourly feed, a day with exactly half of its readings (test rewritten as missing fraction > 0.5)", None),
 "C10-m5": ("hourly period ending on a spring-forward day that is also the last day of a month (padding by normalize()+23h)", "hourly entries of the constructor catalogue (period ending on a 23-hour day at a month end)"),
 "C10-m6": ("more than 10% of days with 50-90% of their hourly temperatures (coverage ratio replaced by temperature.notnull())", "temperature column in the valid-days frames"),
 "C11-m5": ("balance point between the segment limit and the range limit (fix_full_model_x called with the segment limits)", None),
 "C11-m6": ("single-slope shape with its balance point on/after the segment limit (full_model handed the segment limits)", None),
 "C12-m5": ("one model object fitted on a second baseline (component segments memoised)", "refit/segments"),
 "C12-m6": ("exact ties among a component's temperatures (limits taken from np.unique)", "tidd/limits (built earlier in the same session, before this change arrived)"),
 "C13-m5": ("any zone east of UTC (calendar columns computed after tz_convert(None))", "routing for days at local midnight in zones east of UTC"),
 "C13-m6": ("two model objects with different weekday maps (calendar table shared through a class attribute)", "a decoy model object in the routing cases"),
 "C14-m5": ("nested block handed over as an object of the sibling class carrying that class's defaults (lock walks model_fields_set)", None),
 "C14-m6": ("None for an Optional developer-only field (guard `value is not None`)", None),
 "C16-m5": ("short, strongly autocorrelated residual series: n' below 1 clamped to 1", "the replay injects the stubbed autocorrelation (the obligation existed; its counterexample could not be replayed)"),
 "C16-m6": ("one adjusted ratio undefined, the other passing (early return False)", None),
 "C18-m5": ("negative temperature (first bin clipped at 0)", None),
 "C18-m6": ("an hour whose own-month model has no prediction while another month's model is usable (zero-weight filter dropped)", "own-month model without a prediction; min_count in the symreal group-wise sum"),
 "C19-m5": ("days with a temperature but no usage (rows without a prediction dropped before the resamples)", None),
 "C19-m6": ("'Monthly' / 'BIMONTHLY' (validation case-insensitive, lookup case-sensitive)", None),
 "C20-m5": ("max_days=0 (`if max_days:`)", None),
 "C20-m6": ("requested range overhanging the data on both sides with max_days=None (elif chains the two gap checks)", None),
 # wave 5
 "C01-m7": ("one model object fitted, used, fitted again (coefficient vectors cached per sub-model)", "refit/* in C01"),
 "C01-m8": ("one-sided smoothed shapes (is_smooth sends their absolute k through get_smooth_coeffs)", None),
 "C02-m7": ("CalTRACK hourly model whose occupancy table has null columns (fillna in place on the model's own table)", "caltrack/state with null occupancy columns"),
 "C02-m8": ("hourly model whose cluster table lacks a month, reporting set with usage in that month (learnt clusters kept)", "hourly-model/state with a cluster table lacking June"),
 "C04-m7": ("second fit of one model object refused for a disqualified baseline of another zone (timezone assigned before the gate)", "persistfit: a later refused fit in another zone"),
 "C04-m8": ("falsy override flag that is not the False singleton (np.False_, 0): `is False`", "flag spellings np.False_ / 0 / np.True_"),
 "C05-m7": ("reporting period longer than a year with a blank usage day (missing days matched by day of year)", "dataclass/daily/long"),
 "C05-m8": ("from_series with a blank or missing usage tail (exclusive end of the temperature slice)", "dataclass/daily/long"),
 "C06-m7": ("two repeated-hour days in one frame (search state not reset per day)", "spans holding the transitions of two consecutive years"),
 "C06-m8": ("a zone whose clocks go back by 30 minutes (repeated wall-clock time instead of repeated hour number)", "Australia/Lord_Howe in the zone catalogue"),
 "C07-m7": ("finite temperature far outside the fitted range (prediction blanked, usage not masked)", None),
 "C07-m8": ("aggregated billing period without a usable day (observed summed with min_count=1, predicted without)", "every aggregated period has both totals or neither"),
 "C08-m7": ("from_series meter series ending with two or more reads without an amount", "calendar with trailing reads without an amount"),
 "C08-m8": ("irregular calendar whose median period is exactly 35 days plus a 36-70 day period", "calendar med35"),
 "C09-m7": ("electricity data with a zero reading (whole row blanked incl. its temperature)", "frame-elec"),
 "C09-m8": ("temperature-only reporting data whose feed does not start at local midnight (asfreq instead of resample)", "series-none"),
 "C10-m7": ("span starting and ending in the same calendar month of two years (coverage per (year, month))", "catalogue entry: 365 rows from 20 January"),
 "C10-m8": ("a 35-day bill containing the fall-back night (length from day_counts: 35.04 days)", "catalogue entry: 35-day bill across the fall-back night"),
 "C11-m7": ("smoothed shape with a small k, temperature more than 331.6 k beyond the balance point (clip replaced by a shortcut that drops -|beta k|)", None),
 "C11-m8": ("unsmoothed single-slope model whose stored balance point lies outside the segment limits (intercept moved with the clamp)", None),
 "C12-m7": ("final two-slope fit with a balance point exactly on a segment limit (fix_full_model_x handed the segment limits)", None),
 "C12-m8": ("optimiser returns the balance points reversed at the final fit (re-ordered without their slopes)", "known-finding region C12-H part 1 narrowed to the smoothed kind (the change lay inside an over-wide region)"),
 "C13-m7": ("a season with 28 or 29 valid days but at least 8 weekend days (the 30-day checks write dead locals)", None),
 "C13-m8": ("second fit of one model object (error metrics behind functools.lru_cache)", "best/refit"),
 "C14-m7": ("update_daily_settings on settings without developer mode (model_copy runs no validators)", "update helper entries in the constructor catalogue"),
 "C14-m8": ("a model handed a ready-made settings object of another family (used as is)", "models handed settings objects"),
 "C16-m7": ("series whose level dwarfs its spread: one-pass covariance cancels in float64 (equal over the reals)", "conditioning/float (ground check against exact rational arithmetic)"),
 "C16-m8": ("t_tail=1 (tail argument dropped from the t quantile call)", "arguments of the t quantile recorded by the stub"),
 "C18-m7": ("predict(prediction_index, temperature) with the two arguments in different zones", "prediction index in another zone"),
 "C18-m8": ("NaN temperature (mask tests the wrong series)", None),
 "C19-m7": ("bi-monthly aggregation with a leading temperature gap reaching into the next month (.dropna() before resample)", "temperature may be missing on the first two days of a span"),
 "C19-m8": ("period in which at most half of the days have a temperature (50% rule ported to the aggregation)", None),
 "C20-m7": ("ignore_billing_period_gap_for_day_count=True and an empty selection (index[0] instead of index.min())", None),
 "C20-m8": ("allow_billing_period_overshoot=True and an empty pre-end selection (handler narrowed to KeyError)", None),
 # wave 6
 "C02-m9": ("an already disqualified data object and a poor fit: non-empty lists handed over by reference (`or []`)", None),
 "C02-m10": ("a model read from a legacy (2.0) document predicting reporting sets of different zones (timezone None, set by the first predict)", "legacy20/history"),
 "C04-m9": ("second-generation storage, or two objects read from one dict (from_dict pops the disqualifications out of the stored info)", None),
 "C04-m10": ("poor fit: fit() returns None (guard clause lost the final return)", None),
 "C05-m9": ("one hourly model object predicts a short period, then a long one (cluster table of the short period stored back)", "hourly-history/state"),
 "C05-m10": ("hourly frame in which a row lacks both its temperature and its usage reading (such rows dropped when a usage column is present)", "usage missing on the temperature-less row of dataclass/daily/elec"),
 "C06-m9": ("microsecond/millisecond index and a repeated hour in the period (conversion through the wall clock)", "microsecond index; each hour keeps the weather supplied for it"),
 "C06-m10": ("rows not in chronological order (span taken from the first and last ROW)", "late rows appended at the end"),
 "C08-m9": ("timestamps handed over in a tz-aware 'datetime' column (to_datetime(..., utc=True))", "class-col"),
 "C08-m10": ("electricity data with a negative (net-metered) reading (`<= 0` treated as missing)", "class-elec"),
 "C09-m9": ("timestamps in a 'datetime' column, non-UTC zone (same edit as C08-m9)", "frame-col"),
 "C09-m10": ("from_series with a NaN reading strictly inside the feed (dropna makes the feed irregular, gaps forward-filled)", None),
 "C10-m9": ("a baseline of exactly 328 days (round(328.5) = 328)", None),
 "C10-m10": ("irregular bills with a median length of exactly 35 days plus a 36-70 day bill (same edit as C08-m8)", "catalogue entry: irregular bills, median 35"),
 "C12-m9": ("component with residuals without spread (reverts the NaN-safe floor of fix 3657560c)", None),
 "C12-m10": ("smoothing fractions summing to >= 1 and an unlucky last-bit rounding (ordering guard of fix e702afae removed)", "rounding lemma (C11) also registered in C12"),
 "C14-m9": ("a settings profile containing None values, stored through a fit (model_dump(exclude_none=True))", "stored settings through a fit for four profiles"),
 "C14-m10": ("option lists of the calendar maps spelled with capitals / blanks (str_to_lower / strip removed from the config)", "option-list spellings in the constructor catalogue"),
 "C16-m9": ("reporting period touching the same calendar month in two years (months counted per (year, month))", "reporting index 'two-januaries' + numeric replay of the uncertainty formula"),
 "C01-m11": ("custom season map + a season-split model + a prediction frame that already carries the data classes' default season labels", "prediction frames as the data classes hand them over (api round trip)"),
 "C01-m12": ("reporting temperatures held in an integer column and a sub-model that is not flat", "whole-degree temperatures in an integer column (api round trip)"),
 "C07-m11": ("a split (weekend, season) whose usable rows all have temperature exactly 0.0", "ndarray-style any()/all() on the symbolic column carrier (the changed code could not be executed symbolically before: harness error, exit 3)"),
 "C07-m12": ("a reporting day with a finite temperature and no usage", None),
 "C13-m11": ("weekday/weekend map whose two labels are listed in the other order (options: weekend, weekday)", "route/reversed-options"),
 "C13-m12": ("two candidate splits whose selection criteria differ by less than 1e-4 (a later candidate must now beat the best by a margin)", None),
 "C18-m11": ("a DST transition day in a DST-observing zone (hour of day taken as elapsed time since local midnight)", None),
 "C18-m12": ("the same instants segmented twice in one process, first in another zone (weights memoised by instant)", "weights/*: an earlier call on the same instants in another zone"),
 "C19-m11": ("a calendar period whose daily predictions sum to a negative number (net-metered customer)", None),
 "C19-m12": ("a zone that changes its clocks at local midnight on the first of a month (America/Asuncion 2023-10-01, America/Havana 2020-11-01)", "agg|skipped-midnight / agg|repeated-midnight spans"),
 "C11-m9": ("smoothing fractions whose float sum is a few ulp below 1 and balance points where rounding lets the shifted points pass each other (equal over the reals)", "rounding replay: candidate fractions within a few ulp of 1 on a balance-point grid (the rounding-error model already refuted the order claim; no float64 instance had been found: exit 3)"),
 "C11-m10": ("a legacy (2.0) document whose balance point lies on/after the converted model's new placeholder limits (30/90)", "legacy20/* (symbolic 2.0 documents through from_2_0_params and the real kernels)"),
 "C16-m11": ("reporting rows with only one of observed/predicted finite (rows dropped only when both are missing)", None),
 "C16-m12": ("CalTRACK-hourly ModelMetrics on usage of both signs (abs of the mean instead of mean of abs)", "caltrack_metrics/variants (ModelMetrics against exact rational arithmetic)"),
 "C20-m9": ("requested start/end less than 24 h outside the data (gap tests on timedelta.days)", "time shim: timedelta.days / total_seconds / comparisons (the changed code could not be executed in the shim: trace-validation mismatch, exit 3)"),
 "C20-m10": ("a selection that has rows but no values (emptiness tested before dropna)", None),
 "C04-m11": ("reporting zone whose UTC offset equals the baseline zone's on the first reporting day only (America/Denver vs America/Phoenix in January)", None),
 "C04-m12": ("settings profile cvrmse_threshold=0 (zero read as 'no threshold')", None),
 "C08-m11": ("sub-daily readings on a DST transition day (coverage denominator constant 1440 minutes)", None),
 "C08-m12": ("billing period containing a DST transition (atomic_freq='1D' spread)", None),
 "C12-m11": ("two-slope smoothed fit reduced to one slope with the surviving smoothing fraction strictly between 0 and 0.01 (get_k without the 1% cut-off)", None),
 "C12-m12": ("unsmoothed cooling-only component whose balance point lies on/below the lower segment limit (stored as T_min instead of T_min_seg); visible only when the stored coefficients are read WITHOUT the documented end-pinning - eval() and _predict_submodel clamp the balance point back, and the solver shows kept == scored == predicted for every value with the change applied: judged equivalent under the library's evaluation, kept for the record", None),
 "C16-m10": ("two model objects in one process (one error dict shared through a module constant)", "objects/*"),
}
rows = []
for d in sorted(glob.glob(os.path.join(ROOT, "seeded", "C*-m[4-9]")) + glob.glob(os.path.join(ROOT, "seeded", "C*-m1[0-2]"))):
    sid = os.path.basename(d)
    if sid not in NEEDS:
        continue
    P = sid.split("-")[0]
    a = open(os.path.join(d, "verifyA.txt")).read() if os.path.exists(os.path.join(d, "verifyA.txt")) else ""
    w = open(os.path.join(d, "verifyW.txt")).read() if os.path.exists(os.path.join(d, "verifyW.txt")) else ""
    desc = open(os.path.join(d, "desc.txt")).read().strip() if os.path.exists(os.path.join(d, "desc.txt")) else NEEDS[sid][0]
    ex = re.search(r"check \S+ exit (\d+)", w)
    nv = re.search(r"VIOLATION lines: (\d+)", w)
    first = re.search(r"obligation=(.*)", w)
    commits = re.search(r"verif commit: (\S+)\s+repo commit: (\S+)", w)
    confirmed = "demo on original tree: exit 0" in a and "demo on mutated tree: exit 1" in a and "missing=0" in a
    needs, added = NEEDS[sid]
    meta = dict(id=sid, breaks_property=P, source="independent sub-agent given only the property text (and one-line summaries of earlier changes to avoid repeats) and a scratch worktree",
                needs_to_manifest=needs, description=desc,
                confirmed=dict(demo_on_original="exit 0" if "demo on original tree: exit 0" in a else "?", demo_on_mutant="exit 1" if "demo on mutated tree: exit 1" in a else "?",
                               baseline_suite="208/208 stable tests pass (missing=0)" if "missing=0" in a else "?", ok=confirmed,
                               how="tools/mutant.sh A: scratch worktree of /repo HEAD, demo without and with the patch, pinned suite with the patch (verifyA.txt)"),
                caught=("after strengthening: + " + added) if added else "by the check as it stood when the change arrived",
                check=dict(property=P, exit=int(ex.group(1)) if ex else None, violation_lines=int(nv.group(1)) if nv else 0,
                           first_obligation=first.group(1)[:220] if first else None, verif_commit=commits.group(1) if commits else None, repo_commit=commits.group(2) if commits else None,
                           how="tools/mutant.sh W: the property's quick check (committed checks) run with PYTHONPATH pointing at a scratch worktree of /repo HEAD with the patch applied; /repo itself untouched (verifyW.txt)"),
                detected=bool(ex and int(ex.group(1)) == 1 and nv and int(nv.group(1)) > 0))
    if os.path.exists(os.path.join(d, "original_base.diff")):
        meta["note"] = "patch rebased onto the repaired tree (a fix: commit changed the lines it touches); the sub-agent's original diff is kept as original_base.diff"
    json.dump(meta, open(os.path.join(d, "meta.json"), "w"), indent=1)
    rows.append((sid, needs, meta["caught"], meta["check"]["first_obligation"], meta["detected"], confirmed))
if "--table" in sys.argv:
    for sid, needs, caught, first, det, conf in rows:
        c = "as built" if caught.startswith("by the check") else "after + " + caught.split("+ ", 1)[1]
        print(f"| {sid} | {needs} | {c} | {(first or '-')[:110]} |")
bad = [r[0] for r in rows if not r[4] or not r[5]]
print(len(rows), "entries;", "not detected or not confirmed:", bad, file=sys.stderr)
