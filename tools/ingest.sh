#!/bin/bash
# copy a sub-agent's deliverables from the scratch area into /verif/seeded/<P>-m<k>/ at once (scratch may vanish)
for P in "$@"; do for k in 5 6 7 8 9 10 11 12; do
  [ -f /tmp/wt/$P.mut$k.diff ] || continue
  d=/verif/seeded/$P-m$k; [ -f $d/patch.diff ] && continue; mkdir -p $d
  cp /tmp/wt/$P.mut$k.diff $d/patch.diff; cp /tmp/wt/$P.mut${k}_demo.py $d/demo.py; cp /tmp/wt/$P.mut$k.txt $d/desc.txt 2>/dev/null
  echo ingested $d
done; done
