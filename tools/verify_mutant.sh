#!/bin/bash
# usage: tools/verify_mutant.sh <PROP> <N>   - confirms an agent's mutant in a scratch worktree and runs the check against it in /repo
# writes /tmp/wt/<PROP>.mut<N>.verify.txt
set -u
P=$1; N=$2
DIFF=/tmp/wt/$P.mut$N.diff; DEMO=/tmp/wt/$P.mut${N}_demo.py; OUT=/tmp/wt/$P.mut$N.verify.txt
WT=/tmp/wt/verify_$P_$N
: > $OUT
git -C /repo worktree add -q --detach $WT HEAD || { echo "worktree failed" >> $OUT; exit 2; }
cd $WT
if ! git apply --check $DIFF 2>>$OUT; then echo "PATCH DOES NOT APPLY to current HEAD" >> $OUT; git -C /repo worktree remove --force $WT; exit 2; fi
PYTHONPATH=$WT /venv/bin/python $DEMO > /tmp/wt/$P.mut$N.demo_orig.log 2>&1; echo "demo on original tree: exit $?" >> $OUT
git apply $DIFF
PYTHONPATH=$WT /venv/bin/python $DEMO > /tmp/wt/$P.mut$N.demo_mut.log 2>&1; echo "demo on mutated tree: exit $?" >> $OUT
PYTHONPATH=$WT /venv/bin/python -m pytest -q -p no:cacheprovider --timeout=900 --continue-on-collection-errors --junitxml=/tmp/wt/$P.mut$N.junit.xml > /tmp/wt/$P.mut$N.pytest.log 2>&1
python3 /verif/tools/check_baseline.py /tmp/wt/$P.mut$N.junit.xml | head -3 >> $OUT
cd /; git -C /repo worktree remove --force $WT
# run the check against the mutant in /repo itself
cd /repo && git apply $DIFF && cd /verif && ( timeout 3000 ./vcheck $P > /tmp/wt/$P.mut$N.check.log 2>&1; echo "check exit $?" >> $OUT )
git -C /repo checkout -- . ; git -C /repo status --short | head -3 >> $OUT
grep -c "^VIOLATION" /tmp/wt/$P.mut$N.check.log | sed 's/^/VIOLATION lines: /' >> $OUT
grep "^VIOLATION" -A2 /tmp/wt/$P.mut$N.check.log | head -6 | cut -c1-300 >> $OUT
tail -1 /tmp/wt/$P.mut$N.check.log | cut -c1-250 >> $OUT
cat $OUT
